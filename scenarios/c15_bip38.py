"""C15 — BIP38 keys decrypt only with the right passphrase; new keys use fresh entropy (DESIGN.md 6, C15).

A process-lifetime history of BIP38 calls over the entropy seam (os.urandom / random._urandom replaced by the
simulator's generator, which never repeats a block, records who drew how much, can be told to fail, and is re-keyed in
a forked child the way a kernel source differs between processes).  Oracle = EntropyLedger + round-trip assertions.
"""
import json
import os
import unicodedata

from simkit.world import StopRun
from ref import bip38 as rbip38, codec as rcodec, hashes as rhashes, secp256k1 as rec

PASSWORDS = ['TestingOneTwoThree', 'Satoshi', 'pässwörd', 'pässword', 'ϓ\u0000\U00010400\U0001f4a9',
             'correct horse battery staple', ' ', 'Ω']


def init_worker(datadir):
    pass


def nontrivial(res):
    return sum(res['ops'].values()) >= 4 and res['ops_ok'] >= 2


class C15:
    def __init__(self, world):
        import bitcoinlib.keys as K
        from bitcoinlib.mnemonic import Mnemonic
        self.K = K
        self.Mnemonic = Mnemonic
        self.w = world
        self.ch = ch = world.ch
        self.network = ch.weighted('network', [('bitcoin', 5), ('testnet', 1), ('litecoin', 1)])
        self.n_ops = ch.int('n_ops', 4, 9)
        ch.set_ops(self.n_ops)
        world.install(clock_start_offset=0, entropy_seed=ch.seed, lib_seed=ch.int('libseed', 0, 2 ** 31))
        self.generated = []     # dicts: kind, fields..., fresh (no explicit seed/salt), origin
        self.intermediates = [] # (code, password, explicit_salt)
        self.encrypted = []     # (bip38 string, password, private hex, compressed, address or None)
        self.lotseq_of = {}     # intermediate code -> (lot, sequence)
        self.sticky_bech32 = {}  # string -> made by a Key after address(encoding='bech32') (the encoding sticks)
        world.log.ev('config', network=self.network)

    # -- guarded call with entropy accounting -----------------------------------------------------------------
    def call(self, label, fn):
        w = self.w
        e = w.entropy
        before = e.bytes_drawn
        try:
            r = fn()
            w.ops_ok += 1
            return True, r, e.bytes_drawn - before
        except StopRun:
            raise
        except Exception as ex:
            w.outcome('raised', op=label, exc=type(ex).__name__, msg=str(ex)[:100])
            return False, ex, e.bytes_drawn - before

    def pw(self):
        return PASSWORDS[self.ch.index('pw', len(PASSWORDS))]

    # -- freshness ledger ------------------------------------------------------------------------------------------
    def record_fresh(self, kind, values, origin='parent'):
        """values: dict of result fields that must never repeat between separate generation requests."""
        w = self.w
        for g in self.generated:
            if g['kind'] != kind:
                continue
            same = [k for k in values if k in g['values'] and g['values'][k] == values[k]]
            if same:
                w.violation('generated_key_repeats', {'api': kind, 'across': 'fork' if origin != g['origin'] else 'calls'},
                            'two separate %s requests (%s / %s) returned the same %s' %
                            (kind, g['origin'], origin, ', '.join(sorted(same))))
        self.generated.append({'kind': kind, 'values': values, 'origin': origin})

    # -- operations ------------------------------------------------------------------------------------------
    def op_intermediate(self):
        ch, w, K = self.ch, self.w, self.K
        pw = self.pw()
        lotseq = ch.coin('lotseq', 0.3)
        explicit = ch.coin('explicit_salt', 0.25)
        kw = {}
        if lotseq:
            kw['lot'] = ch.pick('lot', [100000, 199999, 999999])
            kw['sequence'] = ch.pick('seq', [1, 4095, 7])
        if explicit:
            kw['owner_salt'] = bytes([ch.int('salt_b', 128, 255)] * 8)   # never a byte string that reads as hex text
        w.op('intermediate_password', pw=pw, lotseq=lotseq, explicit_salt=explicit)
        ok, code, drawn = self.call('intermediate', lambda: K.bip38_intermediate_password(pw, **kw))
        if not ok:
            return
        w.outcome('intermediate', drawn=drawn, n_known=len(self.intermediates))
        self.intermediates.append((code, pw, explicit))
        self.lotseq_of[code] = (kw.get('lot'), kw.get('sequence'))
        if not explicit:
            if drawn < 4:
                w.violation('no_entropy_drawn', {'api': 'bip38_intermediate_password'},
                            'owner salt not given, yet the call drew %d bytes from the entropy source' % drawn)
            self.record_fresh('bip38_intermediate_password:%s:%s' % (pw, sorted(kw.items())), {'code': code})

    def op_create(self):
        ch, w, K = self.ch, self.w, self.K
        if not self.intermediates:
            return self.op_intermediate()
        code, pw, _ = self.intermediates[ch.index('ip', len(self.intermediates))]
        compressed = ch.coin('compressed', 0.7)
        explicit = ch.coin('explicit_seed', 0.3)
        kw = {'compressed': compressed, 'network': self.network}
        if explicit:
            # seeds with a byte shape that arithmetic on integers loses (leading zero bytes) among ordinary ones
            fill = bytes([ch.int('seed_b', 128, 255)])
            shape = ch.pick('seed_shape', ['fill', 'zero_lead', 'zero_lead', 'almost_zero', 'ones'])
            if shape == 'fill':
                kw['seed'] = fill * 24
            elif shape == 'zero_lead':
                k0 = ch.pick('seed_k0', [1, 2, 8, 16, 17])
                kw['seed'] = b'\x00' * k0 + fill * (24 - k0)
            elif shape == 'almost_zero':
                kw['seed'] = b'\x00' * 23 + b'\x01'
            else:
                kw['seed'] = b'\xff' * 24
        w.op('create_new_encrypted_wif', compressed=compressed, explicit_seed=explicit)
        ok, res, drawn = self.call('create', lambda: K.bip38_create_new_encrypted_wif(code, **kw))
        if not ok:
            return
        w.outcome('created', drawn=drawn, n_generated=len(self.generated))
        if not explicit:
            if drawn < 16:
                w.violation('no_entropy_drawn', {'api': 'bip38_create_new_encrypted_wif'},
                            'seed not given, yet the call drew %d bytes from the entropy source' % drawn)
            self.record_fresh('bip38_create_new_encrypted_wif',
                              {'encrypted_wif': res['encrypted_wif'], 'address': res['address'],
                               'seed': bytes(res['seed']).hex()})
        self.encrypted.append((res['encrypted_wif'], pw, None, compressed, res['address'], ('Key', None)))
        if ch.coin('ref_create', 0.6):
            # what an independent BIP38 implementation makes of the new string with the owner's passphrase
            self.ref_decrypt_check(res['encrypted_wif'], pw, 'Key', None, 'bip38_create_new_encrypted_wif',
                                   want_address=res['address'], want_compressed=compressed,
                                   want_lotseq=self.lotseq_of.get(code))
        if res['compressed'] != compressed:
            w.violation('compression_flag_lost', {'api': 'bip38_create_new_encrypted_wif'}, 'asked %s' % compressed)

    def op_encrypt(self):
        ch, w, K = self.ch, self.w, self.K
        pw = self.pw()
        compressed = ch.coin('compressed', 0.6)
        hd = ch.coin('hdkey', 0.3)
        w.op('encrypt', pw=pw, compressed=compressed, hdkey=hd)
        shape = 'random'
        if not hd and ch.coin('shaped_key', 0.4):
            # private keys with structure a byte-level slip would trip over (1 in 256 or rarer among random keys)
            shape = ch.pick('key_shape', ['ends_01', 'ends_00', 'starts_00', 'starts_0000', 'one', 'n_minus_1', 'starts_80',
                                          'ends_0101'])
            b = bytearray(rhashes.sha256(b'c15 shaped %d' % ch.int('shape_seed', 0, 10 ** 6)))
            if shape == 'ends_01':
                b[-1] = 1
            elif shape == 'ends_00':
                b[-1] = 0
            elif shape == 'ends_0101':
                b[-2:] = b'\x01\x01'
            elif shape == 'starts_00':
                b[0] = 0
            elif shape == 'starts_0000':
                b[0:2] = b'\0\0'
            elif shape == 'starts_80':
                b[0] = 0x80
            elif shape == 'one':
                b = bytearray((1).to_bytes(32, 'big'))
            elif shape == 'n_minus_1':
                b = bytearray((rec.N - 1).to_bytes(32, 'big'))
            secret = int.from_bytes(bytes(b), 'big')
            ok, k, drawn = self.call('Key', lambda: K.Key(secret, network=self.network, compressed=compressed))
            if ok and k.private_hex != bytes(b).hex():
                return          # (the constructor read the number differently: not this property's business)
        elif hd:
            wt = 'segwit' if compressed and ch.coin('hd_segwit', 0.5) else 'legacy'
            ok, k, drawn = self.call('HDKey', lambda: K.HDKey(network=self.network, compressed=compressed,
                                                              witness_type=wt))
        else:
            ok, k, drawn = self.call('Key', lambda: K.Key(network=self.network, compressed=compressed))
        if not ok:
            return
        if shape == 'random':
            if drawn < 32:
                w.violation('no_entropy_drawn', {'api': 'HDKey()' if hd else 'Key()'}, 'new key drew %d bytes' % drawn)
            self.record_fresh('new_key', {'private': k.private_hex})
        else:
            w.probe('shaped_key:' + shape)
        # earlier calls on the key object must not change what encrypt() produces (address caches, sticky encodings)
        primed = []
        ch_compressed0 = compressed
        if ch.coin('prime_key', 0.35):
            for _ in range(ch.int('n_prime', 1, 2)):
                c = ch.pick('prime', ['address', 'address_bech32', 'address_uncompressed', 'address_compressed_other',
                                      'wif', 'public', 'as_dict'])
                if hd and wt != 'legacy' and c in ('address_uncompressed', 'address_compressed_other'):
                    c = 'address'       # (an uncompressed segwit key is no valid combination)
                try:
                    if c == 'address':
                        k.address()
                    elif c == 'address_bech32':
                        k.address(encoding='bech32') if compressed else k.address()
                    elif c == 'address_uncompressed':
                        k.address_uncompressed()
                    elif c == 'address_compressed_other':
                        k.address(compressed=not compressed) if not hd else k.address()
                    elif c == 'wif':
                        k.wif()
                    elif c == 'public':
                        k.public()
                    else:
                        k.as_dict()
                    primed.append(c)
                except StopRun:
                    raise
                except Exception as e:
                    primed.append(c + '!' + type(e).__name__)
            w.log.ev('primed', calls=primed)
            if bool(k.compressed) != compressed:
                # address(compressed=...) / address_uncompressed() switch the key object itself to the other form: from
                # here on it IS an (un)compressed key, and that is what has to come back
                w.probe('key_object_switched_compression')
                compressed = bool(k.compressed)
        created_compressed = ch_compressed0
        sticky = (not hd) and ('address_bech32' in primed or
                               ('address_compressed_other' in primed and not created_compressed))
        ok, enc, _ = self.call('encrypt', lambda: k.encrypt(pw))
        if not ok and sticky:
            # arguments of earlier address() calls stick to the key object (recorded finding C15-sticky-address-state);
            # here they left a combination encrypt() refuses - a refusal is not a wrong key
            w.probe('encrypt_refused_after_sticky_address_calls')
            return
        if not ok:
            w.violation('encrypt_failed', {'hdkey': hd}, repr(enc))
        self.sticky_bech32[enc] = sticky
        self.encrypted.append((enc, pw, k.private_hex, compressed, k.address(),
                               ('HDKey', k.witness_type) if hd else ('Key', None)))
        w.outcome('encrypted')
        if ch.coin('ref_encrypt', 0.6):
            priv = bytes.fromhex(k.private_hex)
            pub = rec.pub_from_priv(int.from_bytes(priv, 'big'), compressed)
            spec = rbip38.encrypt(priv, compressed, pw, rcodec.p2pkh_address(pub, self.network))
            w.probe('encryption_compared_with_reference')
            if enc != spec:
                # which of the two known conventions of the library explains the difference: the passphrase is used as
                # typed (BIP38: NFC-normalised), the string commits to the address of the key's witness type (BIP38: the
                # key's P2PKH address)
                raw = pw.encode('utf-8')
                p2pkh = rcodec.p2pkh_address(pub, self.network)
                causes = None
                for c_pw, c_addr, names in ((raw, p2pkh, ['passphrase_not_nfc_normalised']),
                                            (pw, k.address(), ['commits_to_non_p2pkh_address']),
                                            (raw, k.address(), ['passphrase_not_nfc_normalised',
                                                                'commits_to_non_p2pkh_address'])):
                    if enc == rbip38.encrypt(priv, compressed, c_pw, c_addr):
                        causes = names
                        break
                for cause in causes or ['other']:
                    w.violation('encryption_disagrees_with_bip38', {'cause': cause},
                                '%s(%s, %s).encrypt(%r) = %s, the specification gives %s' %
                                ('HDKey' if hd else 'Key', 'compressed' if compressed else 'uncompressed',
                                 getattr(k, 'witness_type', '-'), pw, enc, spec))

    def op_decrypt(self):
        ch, w, K = self.ch, self.w, self.K
        if not self.encrypted:
            return self.op_encrypt()
        pos = len(self.encrypted) - 1 if ch.coin('dec_latest', 0.4) else ch.index('enc', len(self.encrypted))
        enc, pw, priv, compressed, address, (cls, wt) = self.encrypted[pos]

        def dec(password, string=None):
            # a key is decrypted by the class that encrypted it (HDKey hashes the address of its witness type)
            if cls == 'HDKey':
                return K.HDKey(string or enc, password=password, network=self.network, witness_type=wt)
            return K.Key(string or enc, password=password, network=self.network)
        how = ch.weighted('dec', [('right', 4), ('wrong', 4), ('nfc_variant', 1), ('corrupt', 2)])
        w.op('decrypt', how=how)
        if how == 'right' or how == 'nfc_variant':
            use = pw if how == 'right' else unicodedata.normalize('NFD', pw)
            ok, k, _ = self.call('decrypt', lambda: dec(use))
            if how == 'nfc_variant' and unicodedata.normalize('NFC', use) != unicodedata.normalize('NFC', pw):
                return
            if how == 'nfc_variant' and use != pw:
                # BIP38 normalises passphrases to NFC; only the EC-multiplied branch of the library does, so a
                # differently composed passphrase is treated like any wrong passphrase: it may fail, not mis-decrypt
                if ok and priv is not None and k.private_hex != priv:
                    w.violation('wrong_key_returned', {'how': how}, 'decrypted to another key')
                return
            if not ok:
                sig = {'ec_multiplied': priv is None, 'default_network': self.network == 'bitcoin'}
                if self.sticky_bech32.get(enc):
                    sig = {'ec_multiplied': False, 'cause': 'sticky_address_state'}
                w.violation('right_passphrase_fails', sig, repr(k)[:200])
                return
            if priv is not None and k.private_hex != priv:
                w.violation('round_trip_changes_key', {'ec_multiplied': False}, 'decrypt(encrypt(k)) != k')
            if k.compressed != compressed:
                w.violation('compression_flag_lost', {'api': 'decrypt'}, 'was %s' % compressed)
            if address is not None and k.address() != address:
                w.violation('address_mismatch_after_decrypt', {'ec_multiplied': priv is None},
                            '%s vs %s' % (k.address(), address))
            w.outcome('decrypted')
            if ch.coin('ref_decrypt', 0.5):
                self.ref_decrypt_check(enc, pw, cls, wt, 'decrypt', want_priv=k.private_hex, want_compressed=k.compressed)
        elif how == 'wrong':
            others = [p for p in PASSWORDS if unicodedata.normalize('NFC', p) != unicodedata.normalize('NFC', pw)]
            wrong = others[ch.index('wrongpw', len(others))]
            ok, k, _ = self.call('decrypt_wrong', lambda: dec(wrong))
            if ok:
                w.violation('wrong_passphrase_returns_key', {'ec_multiplied': priv is None},
                            'passphrase %r instead of %r returned key with address %s' % (wrong, pw, k.address()))
            if cls == 'Key' and ch.coin('cross_class', 0.4):
                # the same string offered to the other key class with the wrong passphrase must not yield a key either
                ok, k2, _ = self.call('decrypt_wrong_hdkey', lambda: K.HDKey(enc, password=wrong, network=self.network))
                if ok and ((priv is not None and k2.private_hex != priv) or (priv is None and k2.address() != address)):
                    w.violation('wrong_passphrase_returns_key', {'ec_multiplied': priv is None, 'api': 'HDKey'},
                                'HDKey(<bip38>, password=%r) instead of %r returned another key' % (wrong, pw))
            if priv is None and ch.coin('module_level', 0.5):
                # the EC-multiplied branch of the module-level function verifies the address hash itself
                ok, r, _ = self.call('bip38_decrypt_wrong', lambda: K.bip38_decrypt(enc, wrong))
                if ok and r[3].get('address') != address:
                    w.violation('wrong_passphrase_returns_key', {'ec_multiplied': True, 'api': 'bip38_decrypt'},
                                'bip38_decrypt() with passphrase %r instead of %r returned another key (%s)' %
                                (wrong, pw, r[3].get('address')))
        else:
            pos = ch.int('cpos', 2, len(enc) - 1)
            alphabet = '123456789ABCDEFGHJKLMNPQRSTUVWXYZabcdefghijkmnopqrstuvwxyz'
            c = alphabet[(alphabet.index(enc[pos]) + 1 + ch.int('cshift', 0, 56)) % 58]
            bad = enc[:pos] + c + enc[pos + 1:]
            if bad == enc:
                return
            self.w.fault('msg_corrupt', pos=pos)
            ok, k, _ = self.call('decrypt_corrupt', lambda: dec(pw, bad))
            if ok and ((priv is not None and k.private_hex != priv) or (priv is None and k.address() != address)):
                w.violation('corrupted_string_returns_other_key', {'ec_multiplied': priv is None},
                            'one changed character at %d decrypts to another key (%s)' % (pos, k.address()))
            elif ok:
                w.probe('corrupted_checksum_not_noticed')

    def ref_decrypt_check(self, enc, pw, cls, wt, api, want_priv=None, want_address=None, want_compressed=None,
                          want_lotseq=None):
        """Decrypt with the independent reference and compare with what the library produced / returned."""
        w = self.w

        def address_of(pub):
            if cls == 'HDKey' and wt == 'segwit':
                return rcodec.p2wpkh_address(pub, self.network)
            if cls == 'HDKey' and wt == 'p2sh-segwit':
                return rcodec.p2sh_p2wpkh_address(pub, self.network)
            return rcodec.p2pkh_address(pub, self.network)
        try:
            plain_mode = rcodec.b58check_decode(enc)[1] == 0x42
        except Exception:
            plain_mode = False
        if want_priv is not None and plain_mode and unicodedata.normalize('NFC', pw) != pw:
            # a plain-mode string of the library: made with the passphrase as typed (reported when it was made)
            pw = pw.encode('utf-8')
        try:
            r = rbip38.decrypt(enc, pw, address_of=address_of)
        except rbip38.Bip38Error as e:
            w.violation('result_disagrees_with_bip38', {'api': api, 'what': 'malformed'}, '%s: %s' % (enc, e))
            return
        w.probe('decryption_compared_with_reference')
        sig = {'api': api, 'ec_multiplied': r['ec_multiplied']}
        if not r['address_ok']:
            w.violation('result_disagrees_with_bip38', dict(sig, what='address_hash'),
                        '%s: with the right passphrase the reference derives a key whose address does not match the '
                        'address hash in the string' % enc)
        if want_priv is not None and r['priv'].hex() != want_priv:
            w.violation('result_disagrees_with_bip38', dict(sig, what='private_key'),
                        '%s: library %s..., reference %s...' % (enc, want_priv[:8], r['priv'].hex()[:8]))
        if want_compressed is not None and r['compressed'] != bool(want_compressed):
            w.violation('result_disagrees_with_bip38', dict(sig, what='compression'),
                        '%s: compression flag %r, expected %r' % (enc, r['compressed'], want_compressed))
        if want_address is not None:
            pub = rec.pub_from_priv(int.from_bytes(r['priv'], 'big'), r['compressed'])
            if rcodec.p2pkh_address(pub, self.network) != want_address:
                w.violation('result_disagrees_with_bip38', dict(sig, what='address'),
                            '%s: reported address %s, the reference key has %s' %
                            (enc, want_address, rcodec.p2pkh_address(pub, self.network)))
        if want_lotseq is not None and (r['lot'], r['sequence']) != tuple(want_lotseq):
            w.violation('result_disagrees_with_bip38', dict(sig, what='lot_sequence'),
                        '%s: lot/sequence %r, asked %r' % (enc, (r['lot'], r['sequence']), want_lotseq))

    def op_other(self):
        ch, w, K = self.ch, self.w, self.K
        what = ch.pick('other', ['HDKey', 'Mnemonic'])
        w.op('other_entropy_user', what=what)
        if what == 'HDKey':
            ok, k, drawn = self.call('HDKey', lambda: K.HDKey(network=self.network))
            if ok:
                self.record_fresh('new_key', {'private': k.private_hex})
        else:
            ok, m, drawn = self.call('Mnemonic', lambda: self.Mnemonic().generate())
            if ok:
                self.record_fresh('mnemonic', {'words': m})

    def op_entropy_fail(self):
        """The entropy source fails during a generation call: the call must fail, never return a key."""
        ch, w, K = self.ch, self.w, self.K
        what = ch.pick('ef', ['create', 'intermediate', 'Key'])
        w.op('entropy_fail', what=what)
        w.entropy.fail_next = True
        if what == 'create':
            if not self.intermediates:
                w.entropy.fail_next = False
                return
            code = self.intermediates[0][0]
            ok, r, _ = self.call('create', lambda: K.bip38_create_new_encrypted_wif(code))
        elif what == 'intermediate':
            ok, r, _ = self.call('intermediate', lambda: K.bip38_intermediate_password('x'))
        else:
            ok, r, _ = self.call('Key', lambda: K.Key())
        consumed = not w.entropy.fail_next
        w.entropy.fail_next = False
        if ok and consumed:
            w.violation('key_returned_without_entropy', {'api': what}, 'entropy source raised OSError, call returned')
        if ok and not consumed:
            # the call never asked the entropy source at all
            if what in ('create', 'intermediate'):
                w.violation('no_entropy_drawn', {'api': 'bip38_create_new_encrypted_wif' if what == 'create'
                                                 else 'bip38_intermediate_password'},
                            'entropy source armed to fail, yet the call returned without touching it')

    def op_fork(self):
        """Parent and a forked child each request a new encrypted key."""
        ch, w, K = self.ch, self.w, self.K
        if not self.intermediates:
            self.op_intermediate()
        if not self.intermediates:
            return
        code = self.intermediates[0][0]
        w.op('fork')
        r, wr = os.pipe()
        pid = os.fork()
        if pid == 0:
            try:
                os.close(r)
                w.entropy.seed += b'/forked-child'      # a kernel source does not repeat across processes
                res = K.bip38_create_new_encrypted_wif(code, network=self.network)
                ip = K.bip38_intermediate_password('forkpw')
                os.write(wr, json.dumps({'encrypted_wif': res['encrypted_wif'], 'address': res['address'],
                                         'seed': bytes(res['seed']).hex(), 'ip': ip}).encode())
            except BaseException as e:
                os.write(wr, json.dumps({'error': repr(e)}).encode())
            finally:
                os._exit(0)
        os.close(wr)
        data = b''
        while True:
            b = os.read(r, 65536)
            if not b:
                break
            data += b
        os.close(r)
        os.waitpid(pid, 0)
        child = json.loads(data.decode())
        if 'error' in child:
            w.outcome('child_failed', err=child['error'][:100])
            return
        self.record_fresh('bip38_create_new_encrypted_wif',
                          {k: child[k] for k in ('encrypted_wif', 'address', 'seed')}, origin='child')
        self.record_fresh("bip38_intermediate_password:forkpw:[]", {'code': child['ip']}, origin='child')
        ok, res, drawn = self.call('create', lambda: K.bip38_create_new_encrypted_wif(code, network=self.network))
        if ok:
            self.record_fresh('bip38_create_new_encrypted_wif',
                              {'encrypted_wif': res['encrypted_wif'], 'address': res['address'],
                               'seed': bytes(res['seed']).hex()})
        ok, ip, drawn = self.call('intermediate', lambda: K.bip38_intermediate_password('forkpw'))
        if ok:
            self.record_fresh("bip38_intermediate_password:forkpw:[]", {'code': ip})
        w.outcome('forked')

    def step(self):
        kind = self.ch.weighted('op', [('create', 6), ('intermediate', 3), ('encrypt', 3), ('decrypt', 6), ('other', 2),
                                       ('entropy_fail', 1), ('fork', 1)])
        getattr(self, 'op_' + kind)()


def run(world):
    sim = C15(world)
    world.debug_ns = {'sim': sim}
    while sim.ch.next_op():
        sim.step()
    sim.ch.tail_block()
