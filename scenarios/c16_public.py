"""C16 — public views and default exports never contain private key material (DESIGN.md 6, C16).

Object arm: histories of priming calls (which fill caches) followed by public-view calls on Key / HDKey / WalletKey /
Wallet / signed transactions; every public object is pickled (all protocols), deep-copied and walked, every default
text/dict form is searched, for every registered encoding of every private key the run knows.
Storage arm (worker started with database field encryption enabled): an ordinary wallet history with commit-point
observation of the raw bytes of the SQLite file (and journal), plus crash / reopen.
"""
import contextlib
import copy
import io
import json
import re
import os
import pickle

from simkit import providers as P
from simkit.providers import CTX
from simkit.simchain import SimChain, View
from simkit.world import StopRun, SimCrash
from ref import bip32 as rbip32, codec as rcodec, hashes as rhashes, secp256k1 as rec

_STATE = {}


def init_worker(datadir):
    _STATE['datadir'] = datadir
    P.install(datadir, [], 'bitcoin')


def nontrivial(res):
    return sum(res['ops'].values()) >= 4 and res['ops_ok'] >= 2


_B58_TOKEN = re.compile(r'[1-9A-HJ-NP-Za-km-z]{44,120}')


class SecretRegistry:
    """Every private key the run knows, in every encoding the statement lists."""

    def __init__(self, network):
        self.network = network
        self.items = []      # (label, needle bytes)
        self.ints = {}       # int value -> label
        self.seen = set()

    def add_priv(self, priv, label):
        if priv in self.seen:
            return
        self.seen.add(priv)
        raw = priv.to_bytes(32, 'big')
        net = rcodec.NETWORKS[self.network]
        enc = {
            'raw': raw,
            'hex': raw.hex().encode(),
            'HEX': raw.hex().upper().encode(),
            'dec': str(priv).encode(),
            'wif_c': rcodec.wif_encode(priv, True, net['wif']).encode(),
            'wif_u': rcodec.wif_encode(priv, False, net['wif']).encode(),
        }
        for k, v in enc.items():
            self.items.append(('%s/%s' % (label, k), v))
        self.ints[priv] = label

    def add_node(self, node, label):
        """A BIP32 node with private key: the key itself plus its extended private serialisation under every prefix."""
        if node.priv is None:
            return
        self.add_priv(node.priv, label)
        net = rcodec.NETWORKS[self.network]
        for fam, (pubv, prvv) in net['xkeys'].items():
            x = node.ser_private(prvv)
            self.items.append(('%s/xprv:%s' % (label, fam), x.encode()))
            # the raw 78-byte payload as well
            self.items.append(('%s/xprv-raw:%s' % (label, fam), rcodec.b58check_decode(x)))

    def search_bytes(self, blob):
        for label, needle in self.items:
            if needle in blob:
                return label
        return None

    def search_text(self, text):
        hit = self.search_bytes(text.encode('utf-8', 'replace'))
        if hit:
            return hit
        # base58 strings (extended keys, WIFs under any version bytes): search what they decode to for the raw key
        for tok in _B58_TOKEN.findall(text):
            try:
                blob = rcodec.b58decode(tok)
            except Exception:
                continue
            for label, needle in self.items:
                if label.endswith('/raw') and needle in blob:
                    return '%s (inside the base58 string %s...)' % (label, tok[:12])
        return None


def walk(obj, reg, seen=None, depth=0, path='obj', db_rows=False):
    """__dict__/container walk restricted to bitcoinlib classes and builtin containers; ints compared by value."""
    if seen is None:
        seen = set()
    if id(obj) in seen or depth > 12:
        return None
    seen.add(id(obj))
    if isinstance(obj, bool) or obj is None:
        return None
    if isinstance(obj, int):
        if obj in reg.ints:
            return '%s == int(%s)' % (path, reg.ints[obj])
        return None
    if isinstance(obj, (bytes, bytearray)):
        hit = reg.search_bytes(bytes(obj))
        return '%s contains %s' % (path, hit) if hit else None
    if isinstance(obj, str):
        hit = reg.search_text(obj)
        return '%s contains %s' % (path, hit) if hit else None
    if isinstance(obj, (list, tuple, set, frozenset)):
        for i, x in enumerate(obj):
            r = walk(x, reg, seen, depth + 1, '%s[%d]' % (path, i), db_rows)
            if r:
                return r
        return None
    if isinstance(obj, dict):
        for k, v in obj.items():
            r = walk(v, reg, seen, depth + 1, '%s[%r]' % (path, k), db_rows) or walk(k, reg, seen, depth + 1, path + '.key')
            if r:
                return r
        return None
    mod = type(obj).__module__ or ''
    if mod.startswith('bitcoinlib') and (db_rows or not mod.startswith('bitcoinlib.db')):
        d = getattr(obj, '__dict__', None)
        if d:
            for k, v in d.items():
                if k in ('session', '_session', '_dbkey', '_dbwallet', 'wallet', 'hdwallet', '_engine',
                         '_sa_instance_state'):
                    continue        # database handles / back-references, not part of the exported object
                r = walk(v, reg, seen, depth + 1, '%s.%s' % (path, k), db_rows)
                if r:
                    return r
    return None


class C16Objects:
    def __init__(self, world):
        import bitcoinlib.keys as K
        import bitcoinlib.wallets as BW
        self.K, self.BW = K, BW
        self.w = world
        self.ch = ch = world.ch
        self.network = ch.weighted('network', [('bitcoin', 5), ('testnet', 2), ('litecoin', 1)])
        self.coin = rcodec.NETWORKS[self.network]['coin_type']
        self.n_ops = ch.int('n_ops', 5, 14)
        ch.set_ops(self.n_ops)
        world.install(clock_start_offset=0, entropy_seed=ch.seed, lib_seed=ch.int('libseed', 0, 2 ** 31))
        self.reg = SecretRegistry(self.network)
        self.subjects = []          # dict(kind, obj, label)
        self.wallet = None
        self.make_subjects()
        world.log.ev('config', network=self.network, subjects=[s['kind'] for s in self.subjects])

    # -- subjects ---------------------------------------------------------------------------------------------
    def xprv(self, node, fam='legacy'):
        return node.ser_private(rcodec.NETWORKS[self.network]['xkeys'][fam][1])

    def make_subjects(self):
        ch, K = self.ch, self.K
        tag = b'%d' % (ch.seed % 1000003)
        n = ch.int('n_subjects', 1, 3)
        for i in range(n):
            kind = ch.weighted('subject', [('key', 3), ('hdkey_master', 3), ('hdkey_child', 3), ('wallet', 3)])
            if kind == 'wallet' and self.wallet is not None:
                kind = 'hdkey_child'
            if kind == 'key':
                priv = int.from_bytes(rhashes.sha256(b'c16 key %d ' % i + tag), 'big') % (rec.N - 1) + 1
                compressed = ch.coin('compressed', 0.7)
                self.reg.add_priv(priv, 'key%d' % i)
                wif = rcodec.wif_encode(priv, compressed, rcodec.NETWORKS[self.network]['wif'])
                k = K.Key(wif, network=self.network)
                self.subjects.append({'kind': 'Key', 'obj': k, 'label': 'key%d' % i})
            elif kind in ('hdkey_master', 'hdkey_child'):
                master = rbip32.RefHDNode.from_seed(rhashes.sha256(b'c16 hd %d ' % i + tag))
                wt = ch.pick('wt', ['segwit', 'p2sh-segwit', 'legacy'])
                self.reg.add_node(master, 'hd%d.m' % i)
                hk = K.HDKey(self.xprv(master), network=self.network, witness_type=wt)
                if kind == 'hdkey_child':
                    path = ch.pick('path', ["m/44'/0'/0'", "m/84'/0'/0'/0/3", "m/0/1", "m/49'/1'/2'/1"])
                    node = master
                    acc = 'm'
                    for part in path.split('/')[1:]:
                        acc += '/' + part
                        node = master.derive(acc)
                        self.reg.add_node(node, 'hd%d.%s' % (i, acc))
                    hk = hk.subkey_for_path(path)
                subj_node = master if kind == 'hdkey_master' else node
                # keys the library derives from this object on its own (public_master, priming subkeys)
                if subj_node.priv is not None:
                    for rel in ('0', '0/1'):
                        self.reg.add_node(subj_node.derive(rel), 'hd%d.sub/%s' % (i, rel))
                    if kind == 'hdkey_master':
                        for purpose in (44, 45, 48, 49, 84):
                            acc = 'm'
                            for part in ("%d'" % purpose, "%d'" % self.coin, "0'"):
                                acc += '/' + part
                                self.reg.add_node(master.derive(acc), 'hd%d.%s' % (i, acc))
                            for st in ("1'", "2'"):
                                if purpose == 48:
                                    self.reg.add_node(master.derive(acc + '/' + st), 'hd%d.%s/%s' % (i, acc, st))
                self.subjects.append({'kind': 'HDKey', 'obj': hk, 'label': 'hd%d' % i, 'wt': wt})
            else:
                self.make_wallet(i, tag)

    def make_wallet(self, i, tag):
        ch, BW = self.ch, self.BW
        master = rbip32.RefHDNode.from_seed(rhashes.sha256(b'c16 wallet %d ' % i + tag))
        wt = ch.pick('wt', ['segwit', 'p2sh-segwit', 'legacy'])
        purpose = {'legacy': 44, 'p2sh-segwit': 49, 'segwit': 84}[wt]
        from_what = ch.weighted('wallet_from', [('master', 5), ('account_private', 3), ('multisig', 3), ('single', 2)])
        self.reg.add_node(master, 'w.m')
        if from_what == 'multisig':
            return self.make_multisig_wallet(master, wt)
        if from_what == 'single':
            # a wallet on one private key (scheme 'single'): its public master key is that key's public side
            priv = master.priv
            db = os.path.join(self.w.scratch, 'w.sqlite')
            wif = rcodec.wif_encode(priv, True, rcodec.NETWORKS[self.network]['wif'])
            w = BW.Wallet.create('c16w', keys=wif, network=self.network, witness_type=wt, scheme='single', db_uri=db,
                                 db_cache_uri=os.path.join(self.w.scratch, 'cache.sqlite'))
            self.wallet = {'w': w, 'wt': wt, 'db': db, 'master': master, 'acc': 'm'}
            self.subjects.append({'kind': 'Wallet', 'obj': w, 'label': 'wallet', 'wt': wt, 'single': True})
            return
        acc = 'm'
        for part in ("%d'" % purpose, "%d'" % self.coin, "0'"):
            acc += '/' + part
            self.reg.add_node(master.derive(acc), 'w.' + acc)
        accn = master.derive(acc)
        for chg in (0, 1):
            self.reg.add_node(accn.derive('%d' % chg), 'w.%s/%d' % (acc, chg))
            for idx in range(6):
                self.reg.add_node(accn.derive('%d/%d' % (chg, idx)), 'w.%s/%d/%d' % (acc, chg, idx))
        db = os.path.join(self.w.scratch, 'w.sqlite')
        keyarg = self.xprv(master)
        if from_what == 'account_private':
            # a wallet opened on the account-level *private* extended key (depth 3)
            fam = {'legacy': 'legacy', 'p2sh-segwit': 'p2sh_p2wpkh', 'segwit': 'p2wpkh'}[wt]
            keyarg = accn.ser_private(rcodec.NETWORKS[self.network]['xkeys'][fam][1])
        w = BW.Wallet.create('c16w', keys=keyarg, network=self.network, witness_type=wt, db_uri=db,
                             db_cache_uri=os.path.join(self.w.scratch, 'cache.sqlite'))
        self.wallet = {'w': w, 'wt': wt, 'db': db, 'master': master, 'acc': acc}
        self.subjects.append({'kind': 'Wallet', 'obj': w, 'label': 'wallet', 'wt': wt})

    def make_multisig_wallet(self, master, wt):
        """2-of-3 cosigner wallet that holds one private cosigner key (the other two are public account keys)."""
        from scenarios.wallet_world import MS_ACCOUNT_PATH, MS_FAMILY
        BW = self.BW
        acc_path = MS_ACCOUNT_PATH[wt]
        if '%d' in acc_path:
            acc_path = acc_path % self.coin
        acc = 'm'
        for part in acc_path.split('/')[1:]:
            acc += '/' + part
            self.reg.add_node(master.derive(acc), 'w.' + acc)
        accn = master.derive(acc_path)
        rels = ['%d' % c for c in (0, 1, 2)]
        for a in (0, 1, 2):
            for b in (0, 1):
                rels.append('%d/%d' % (a, b))
                for c in range(4):
                    rels.append('%d/%d/%d' % (a, b, c))
        for rel in rels:        # legacy: cosigner/change/index, segwit kinds: change/index
            self.reg.add_node(accn.derive(rel), 'w.%s/%s' % (acc_path, rel))
        fam = MS_FAMILY[wt]
        pubv = rcodec.NETWORKS[self.network]['xkeys'][fam][0]
        others = [rbip32.RefHDNode.from_seed(rhashes.sha256(b'c16 cosigner %d' % j)) for j in (1, 2)]
        keys = [self.xprv(master)] + [o.derive(acc_path).neuter().ser_public(pubv) for o in others]
        db = os.path.join(self.w.scratch, 'w.sqlite')
        w = BW.Wallet.create('c16w', keys=keys, sigs_required=2, network=self.network, witness_type=wt, db_uri=db,
                             db_cache_uri=os.path.join(self.w.scratch, 'cache.sqlite'))
        self.wallet = {'w': w, 'wt': wt, 'db': db, 'master': master, 'acc': acc_path}
        self.subjects.append({'kind': 'Wallet', 'obj': w, 'label': 'wallet', 'wt': wt, 'multisig': True})

    # -- observation ------------------------------------------------------------------------------------------
    def leak_in_object(self, obj, what):
        """pickle (all protocols), deepcopy then pickle, and the attribute walk."""
        for proto in range(0, pickle.HIGHEST_PROTOCOL + 1):
            try:
                blob = pickle.dumps(obj, protocol=proto)
            except Exception:
                self.w.probe('unpicklable:%s' % what.split(':')[0])
                blob = None
                break
            hit = self.reg.search_bytes(blob)
            if hit:
                return 'pickle(protocol %d) contains %s' % (proto, hit)
        try:
            c = copy.deepcopy(obj)
            blob = pickle.dumps(c)
            hit = self.reg.search_bytes(blob)
            if hit:
                return 'deepcopy+pickle contains %s' % hit
        except Exception:
            pass
        return walk(obj, self.reg)

    def check_public_object(self, obj, what, primed):
        hit = self.leak_in_object(obj, what)
        self.w.probe('public_object_checked')
        if hit:
            self.w.violation('private_material_in_public_object', {'view': what.split(':')[0]},
                             '%s after priming %s: %s' % (what, primed, hit))

    def check_text(self, text, what, primed):
        if not isinstance(text, str):
            text = json.dumps(text, default=str) if isinstance(text, (dict, list)) else repr(text)
        hit = self.reg.search_text(text)
        self.w.probe('default_text_checked')
        if hit:
            self.w.violation('private_material_in_default_export', {'view': what.split(':')[0]},
                             '%s after priming %s: contains %s' % (what, primed, hit))

    def capture(self, fn):
        buf = io.StringIO()
        with contextlib.redirect_stdout(buf):
            fn()
        return buf.getvalue()

    # -- priming calls --------------------------------------------------------------------------------------------
    def prime(self, s):
        ch = self.ch
        obj = s['obj']
        kind = s['kind']
        done = []
        calls = {
            'Key': ['wif', 'as_dict_private', 'as_json_private', 'address', 'address_uncompressed', 'info', 'deepcopy',
                    'pickle', 'public_point', 'hex'],
            'HDKey': ['wif', 'wif_key', 'wif_is_private', 'wif_private', 'as_dict_private', 'as_json_private', 'address',
                      'info', 'subkey', 'public_master_private', 'deepcopy', 'pickle', 'wif_other_type', 'child_public'],
            'Wallet': ['wif_private', 'keys', 'get_key', 'as_dict_private', 'info', 'public_master_private', 'main_key_wif',
                       'new_key', 'key_objects'],
        }[kind]
        for _ in range(ch.int('n_prime', 0, 4)):
            c = calls[ch.index('prime', len(calls))]
            try:
                if c == 'wif':
                    obj.wif()
                elif c == 'wif_key':
                    obj.wif_key()
                elif c == 'wif_is_private':
                    obj.wif(is_private=True)
                elif c == 'wif_private':
                    obj.wif_private() if kind == 'HDKey' else obj.wif(is_private=True)
                elif c == 'wif_other_type':
                    obj.wif(is_private=True, witness_type='p2sh-segwit', multisig=True)
                elif c == 'as_dict_private':
                    obj.as_dict(include_private=True)
                elif c == 'as_json_private':
                    obj.as_json(include_private=True)
                elif c == 'address':
                    obj.address()
                elif c == 'address_uncompressed':
                    obj.address_uncompressed()
                elif c == 'info':
                    self.capture(lambda: obj.info())
                elif c == 'deepcopy':
                    copy.deepcopy(obj)
                elif c == 'pickle':
                    pickle.loads(pickle.dumps(obj))
                elif c == 'public_point':
                    obj.public_point()
                elif c == 'hex':
                    obj.hex()
                elif c == 'subkey':
                    obj.subkey_for_path('0/1')
                elif c == 'child_public':
                    obj.child_public(1)
                elif c == 'public_master_private':
                    if kind == 'HDKey':
                        if obj.depth == 0:
                            obj.public_master(as_private=True)
                    else:
                        obj.public_master(as_private=True)
                elif c == 'keys':
                    obj.keys()
                elif c == 'get_key':
                    obj.get_key()
                elif c == 'new_key':
                    obj.new_key()
                elif c == 'main_key_wif':
                    obj.main_key.wif
                    obj.main_key.key().wif_private()
                elif c == 'key_objects':
                    ks = obj.keys()
                    for k in ks[:4] + ks[-4:]:
                        obj.key(k.id).key()
                done.append(c)
            except StopRun:
                raise
            except Exception as e:
                done.append(c + '!' + type(e).__name__)
        return done

    # -- public views -----------------------------------------------------------------------------------------------
    def op_view(self):
        ch, w = self.ch, self.w
        s = self.subjects[ch.index('subject_i', len(self.subjects))]
        primed = self.prime(s)
        obj, kind = s['obj'], s['kind']
        w.op('public_views', subject=s['label'], kind=kind, primed=primed)
        w.ops_ok += 1
        if kind in ('Key', 'HDKey'):
            pub = obj.public()
            self.check_public_object(pub, '%s.public()' % kind, primed)
            for name, fn in [('as_dict()', lambda: pub.as_dict()), ('as_json()', lambda: pub.as_json()),
                             ('repr', lambda: repr(pub)), ('str', lambda: str(pub)),
                             ('info()', lambda: self.capture(lambda: pub.info()))]:
                try:
                    self.check_text(fn(), '%s.public().%s' % (kind, name), primed)
                except StopRun:
                    raise
                except Exception as e:
                    w.probe('view_raised:%s' % type(e).__name__)
            # default text forms of the private object itself
            for name, fn in [('as_dict()', lambda: obj.as_dict()), ('as_json()', lambda: obj.as_json()),
                             ('repr', lambda: repr(obj)), ('str', lambda: str(obj))]:
                try:
                    self.check_text(fn(), '%s.%s' % (kind, name), primed)
                except StopRun:
                    raise
                except Exception as e:
                    w.probe('view_raised:%s' % type(e).__name__)
            try:
                self.check_text(self.capture(lambda: obj.info()), '%s.info()' % kind, primed)
            except StopRun:
                raise
            except Exception:
                pass
            if kind == 'HDKey':
                self.check_text(obj.wif_public(), 'HDKey.wif_public()', primed)
                self.check_text(obj.wif(is_private=False), 'HDKey.wif(is_private=False)', primed)
                # public exports under explicit version bytes / script family (the xpub -> ypub / zpub conversion)
                vb = self.ch.pick('wif_prefix', ['0488b21e', '049d7cb2', '04b24746', '043587cf', '02aa7ed3'])
                vb = bytes.fromhex(vb) if self.ch.coin('wif_prefix_bytes', 0.5) else vb
                ow = self.ch.pick('wif_wt', ['segwit', 'p2sh-segwit', 'legacy'])
                om = self.ch.coin('wif_multisig', 0.3)
                for name, fn in [('wif_public(prefix)', lambda: obj.wif_public(prefix=vb)),
                                 ('wif(is_private=False, prefix)', lambda: obj.wif(is_private=False, prefix=vb)),
                                 ('wif_public(witness_type, multisig)',
                                  lambda: obj.wif_public(witness_type=ow, multisig=om)),
                                 ('wif(is_private=False, witness_type, multisig)',
                                  lambda: obj.wif(is_private=False, witness_type=ow, multisig=om))]:
                    try:
                        self.check_text(fn(), 'HDKey.%s' % name, primed)
                    except StopRun:
                        raise
                    except Exception as e:
                        w.probe('view_raised:%s' % type(e).__name__)
                if obj.depth == 0:
                    pm = obj.public_master()
                    self.check_public_object(pm, 'HDKey.public_master()', primed)
                # keys derived along a public-derivation path ('M/...') of the private key
                mp = self.ch.pick('m_path', ["M/0'", "M/84'/0'/0'", 'M/0/1', 'M', "M/44'/0'", "M/0/1/2'"])
                try:
                    sub = obj.subkey_for_path(mp)
                except StopRun:
                    raise
                except Exception as e:
                    sub = None
                    w.probe('view_raised:subkey_for_path:%s' % type(e).__name__)
                if sub is not None:
                    self.check_public_object(sub, "HDKey.subkey_for_path('M...')", primed + [mp])
                    for name, fn in [('wif()', sub.wif), ('as_dict()', sub.as_dict), ('repr', lambda: repr(sub))]:
                        try:
                            self.check_text(fn(), "HDKey.subkey_for_path('M...').%s" % name, primed + [mp])
                        except StopRun:
                            raise
                        except Exception as e:
                            w.probe('view_raised:%s' % type(e).__name__)
                # the public key again after more priming of the public object
                pub2 = obj.public()
                try:
                    pub2.wif()
                    pub2.as_dict()
                except Exception:
                    pass
                self.check_public_object(pub2, 'HDKey.public()', primed + ['public.wif'])
            self.address_and_transaction_views(s, primed)
        else:
            self.wallet_views(s, primed)
        w.outcome('checked')

    def text_views(self, what, views, primed):
        for name, fn in views:
            try:
                self.check_text(fn(), '%s.%s' % (what, name), primed)
            except StopRun:
                raise
            except Exception as e:
                self.w.probe('view_raised:%s.%s:%s' % (what, name, type(e).__name__))

    def address_and_transaction_views(self, s, primed):
        """Default text forms of the address object of a private key and of a transaction signed with it."""
        from bitcoinlib.transactions import Transaction
        obj, kind = s['obj'], s['kind']
        try:
            a = obj.address_obj
        except Exception:
            a = None
        if a is not None:
            self.text_views('Address', [('as_dict()', a.as_dict), ('as_json()', a.as_json), ('repr', lambda: repr(a)),
                                        ('str', lambda: str(a))], primed)
            self.check_public_object(a, 'Address', primed)
        wt = getattr(obj, 'witness_type', None) or 'legacy'
        if not obj.compressed:
            wt = 'legacy'
        try:
            t = Transaction(network=self.network, witness_type='legacy' if wt == 'legacy' else 'segwit')
            t.add_input(prev_txid=rhashes.sha256(s['label'].encode()).hex(), output_n=0, keys=obj, value=150000,
                        witness_type=wt, compressed=obj.compressed)
            t.add_output(120000, address=rcodec.p2pkh_address(rec.pub_from_priv(777, True), self.network))
            t.sign(obj)
        except StopRun:
            raise
        except Exception as e:
            self.w.probe('transaction_subject_failed:%s' % type(e).__name__)
            return
        self.w.probe('transaction_views_checked')
        self.text_views('Transaction', [('as_dict()', t.as_dict), ('as_json()', t.as_json), ('repr', lambda: repr(t)),
                                        ('str', lambda: str(t)), ('info()', lambda: self.capture(t.info)),
                                        ('raw_hex()', t.raw_hex),
                                        ('inputs.as_dict()', lambda: [i.as_dict() for i in t.inputs]),
                                        ('outputs.as_dict()', lambda: [o.as_dict() for o in t.outputs])], primed)

    def wallet_views(self, s, primed):
        w = self.w
        wl = s['obj']
        BW = self.BW
        pm = wl.public_master()
        for pm_ in (pm if isinstance(pm, list) else [pm]):      # (one per cosigner for multisig wallets)
            self.check_public_object(pm_, 'Wallet.public_master()', primed)
            self.check_text(pm_.wif, 'Wallet.public_master().wif', primed)
        self.check_text(wl.wif(is_private=False), 'Wallet.wif(is_private=False)', primed)
        for name, fn in [('as_dict()', lambda: wl.as_dict()), ('as_json()', lambda: wl.as_json()),
                         ('repr', lambda: repr(wl)), ('str', lambda: str(wl)),
                         ('info()', lambda: self.capture(lambda: wl.info())),
                         ('keys(as_dict=True)', lambda: wl.keys(as_dict=True))]:
            try:
                self.check_text(fn(), 'Wallet.%s' % name, primed)
            except StopRun:
                raise
            except Exception as e:
                w.probe('view_raised:%s' % type(e).__name__)
        # the dictionaries themselves (not only their text): objects they carry along are part of the export
        for name, fn in [('as_dict()', lambda: wl.as_dict()), ('keys(as_dict=True)', lambda: wl.keys(as_dict=True))]:
            try:
                hit = walk(fn(), self.reg, db_rows=True)
            except StopRun:
                raise
            except Exception as e:
                hit = None
                w.probe('view_raised:%s' % type(e).__name__)
            w.probe('default_dict_walked')
            if hit:
                w.violation('private_material_in_default_export', {'view': 'Wallet.%s objects' % name},
                            'Wallet.%s after priming %s carries an object that holds %s' % (name, primed, hit))
        k = wl.get_key()
        for name, fn in [('as_dict()', lambda: k.as_dict()), ('repr', lambda: repr(k))]:
            try:
                self.check_text(fn(), 'WalletKey.%s' % name, primed)
            except StopRun:
                raise
            except Exception as e:
                w.probe('view_raised:%s' % type(e).__name__)
        try:
            kp = wl.key(k.key_id).public()
        except StopRun:
            raise
        except Exception as e:
            kp = None
            w.probe('view_raised:WalletKey.public():%s' % type(e).__name__)
        if kp is not None:
            self.check_public_object(kp, 'WalletKey.public()', primed)
        # the wallet's listings
        self.text_views('Wallet', [('utxos()', wl.utxos), ('transactions(as_dict=True)',
                                                          lambda: wl.transactions(as_dict=True, include_new=True)),
                                   ('addresslist()', wl.addresslist), ('accounts()', wl.accounts)], primed)
        # watch-only wallet created from the export
        if not s.get('multisig') and not s.get('single') and self.ch.coin('watch', 0.4) and \
                not getattr(self, 'watch_done', False):
            self.watch_done = True
            wo = BW.Wallet.create('c16watch', keys=pm.wif, network=self.network, witness_type=s['wt'],
                                  db_uri=os.path.join(self.w.scratch, 'watch.sqlite'),
                                  db_cache_uri=os.path.join(self.w.scratch, 'cache.sqlite'))
            wo.get_key()
            wo.new_key_change()
            self.check_text(wo.as_dict(include_private=True), 'watch-only Wallet.as_dict(include_private=True)', primed)
            for k2 in wo.keys():
                self.check_text('%s %s' % (k2.wif, k2.private.hex() if k2.private else ''), 'watch-only key row', primed)
            with open(os.path.join(self.w.scratch, 'watch.sqlite'), 'rb') as f:
                hit = self.reg.search_bytes(f.read())
            if hit:
                w.violation('private_material_in_default_export', {'view': 'watch-only wallet database'},
                            'database of the watch-only wallet created from the public export contains %s' % hit)


def run_objects(world):
    sim = C16Objects(world)
    world.debug_ns = {'sim': sim}
    while sim.ch.next_op():
        sim.op_view()
    sim.ch.tail_block()
    if sim.wallet is not None:
        # scanner sanity: without field encryption the private wallet's database does hold registered encodings
        with open(sim.wallet['db'], 'rb') as f:
            if sim.reg.search_bytes(f.read()):
                world.probe('scanner_finds_plaintext_in_unencrypted_database')
            else:
                world.probe('scanner_found_nothing_in_unencrypted_database')


# ---------------------------------------------------------------------------------------------------------------
# storage arm

class C16Storage:
    """Wallet history in a worker with database_encryption_enabled=True and DB_FIELD_ENCRYPTION_KEY set; the raw bytes
    of the database (and rollback journal) are scanned at commit points, after crashes and after reopening."""

    def __init__(self, world):
        import bitcoinlib.wallets as BW
        import bitcoinlib.db as BD
        self.BW = BW
        self.w = world
        self.ch = ch = world.ch
        if not (BD.DATABASE_ENCRYPTION_ENABLED and (BD.DB_FIELD_ENCRYPTION_KEY or BD.DB_FIELD_ENCRYPTION_PASSWORD)):
            raise RuntimeError("storage arm needs a worker with database field encryption switched on")
        self.network = ch.weighted('network', [('bitcoin', 4), ('testnet', 2), ('litecoin', 2), ('bitcoinlib_test', 1),
                                               ('litecoin_testnet', 1)])
        self.coin = rcodec.NETWORKS[self.network]['coin_type']
        self.n_ops = ch.int('n_ops', 6, 16)
        ch.set_ops(self.n_ops)
        world.install(clock_start_offset=ch.int('clock0', 0, 10 ** 6), entropy_seed=ch.seed,
                      lib_seed=ch.int('libseed', 0, 2 ** 31))
        self.chain = SimChain(world.clock, start_height=ch.int('h0', 100, 800000))
        CTX.reset()
        CTX.world = world
        CTX.chain = self.chain
        CTX.network = self.network
        CTX.behave = None
        CTX.views = {0: View(0, True), 1: View(0, True)}
        CTX.fee_base = {0: 20000, 1: 6000}
        P.write_providers_json(_STATE['datadir'], [{'pid': 0, 'priority': 10}, {'pid': 1, 'priority': 10}], self.network)
        self.reg = SecretRegistry(self.network)
        self.db = os.path.join(world.scratch, 'enc.sqlite')
        self.cache = os.path.join(world.scratch, 'cache.sqlite')
        self.crash_in = None
        self.in_op = False
        self.scans = 0
        self.log_offsets = {}
        datadir = os.environ.get('BCL_DATA_DIR', '')
        for fn in os.listdir(datadir) if datadir and os.path.isdir(datadir) else []:
            if fn.startswith('bitcoinlib.log'):
                self.log_offsets[fn] = os.path.getsize(os.path.join(datadir, fn))   # earlier runs of this worker
        world.commit_hook = self.commit_hook
        self.make_wallet()

    def commit_hook(self, session, phase):
        if not self.in_op or 'cache' in self.w.session_file(session):
            return
        if phase == 'after' and self.ch.coin('scan_at_commit', 0.25):
            self.scan('commit point')
        if self.crash_in is not None:
            self.crash_in -= 1
            if self.crash_in <= 0:
                self.crash_in = None
                self.w.fault('crash', phase=phase)
                raise SimCrash()

    def make_wallet(self):
        ch, BW = self.ch, self.BW
        tag = b'%d' % (ch.seed % 1000003)
        kind = ch.pick('kind', ['hd', 'hd', 'ms', 'single'])
        self.wt = wt = ch.pick('wt', ['segwit', 'p2sh-segwit', 'legacy'])
        self.w.op('create_wallet', kind=kind, wt=wt)
        if kind == 'single':
            priv = int.from_bytes(rhashes.sha256(b'c16s single ' + tag), 'big') % (rec.N - 1) + 1
            self.reg.add_priv(priv, 'single')
            wif = rcodec.wif_encode(priv, True, rcodec.NETWORKS[self.network]['wif'])
            self.wl = BW.Wallet.create('encw', keys=wif, network=self.network, witness_type=wt, scheme='single',
                                       db_uri=self.db, db_cache_uri=self.cache)
            return
        masters = [rbip32.RefHDNode.from_seed(rhashes.sha256(b'c16s %d ' % j + tag)) for j in range(2 if kind == 'ms' else 1)]
        legacy_prv = rcodec.NETWORKS[self.network]['xkeys']['legacy'][1]
        purpose = {'legacy': 44, 'p2sh-segwit': 49, 'segwit': 84}[wt]
        for j, m in enumerate(masters):
            self.reg.add_node(m, 'm%d' % j)
            if kind == 'hd':
                acc = 'm'
                for part in ("%d'" % purpose, "%d'" % self.coin, "0'"):
                    acc += '/' + part
                    self.reg.add_node(m.derive(acc), 'm%d.%s' % (j, acc))
                accn = m.derive(acc)
                for chg in (0, 1):
                    self.reg.add_node(accn.derive('%d' % chg), 'chg%d' % chg)
                    for idx in range(8):
                        self.reg.add_node(accn.derive('%d/%d' % (chg, idx)), 'k%d/%d' % (chg, idx))
            else:
                accp = "m/45'" if wt == 'legacy' else ("m/48'/%d'/0'/%d'" % (self.coin, 1 if wt == 'p2sh-segwit' else 2))
                acc = 'm'
                for part in accp.split('/')[1:]:
                    acc += '/' + part
                    self.reg.add_node(m.derive(acc), 'm%d.%s' % (j, acc))
                accn = m.derive(accp)
                rels = ['0/%d/%d' % (c, i) for c in (0, 1) for i in range(5)] if wt == 'legacy' else \
                    ['%d/%d' % (c, i) for c in (0, 1) for i in range(5)]
                for rel in rels + ['0', '1', '0/0', '0/1']:
                    try:
                        self.reg.add_node(accn.derive(rel), 'ms%d.%s' % (j, rel))
                    except Exception:
                        pass
        if kind == 'hd':
            self.wl = BW.Wallet.create('encw', keys=masters[0].ser_private(legacy_prv), network=self.network,
                                       witness_type=wt, db_uri=self.db, db_cache_uri=self.cache)
        else:
            self.wl = BW.Wallet.create('encw', keys=[m.ser_private(legacy_prv) for m in masters], sigs_required=2,
                                       network=self.network, witness_type=wt, cosigner_id=0,
                                       db_uri=self.db, db_cache_uri=self.cache)
        self.scan('after create')

    def scan(self, where):
        """No registered encoding may be readable in the database file or its journal."""
        self.scans += 1
        for suffix in ('', '-journal', '-wal'):
            p = self.db + suffix
            if not os.path.exists(p):
                continue
            with open(p, 'rb') as f:
                blob = f.read()
            hit = self.reg.search_bytes(blob)
            self.w.probe('storage_scanned')
            if hit:
                self.w.violation('plaintext_private_material_in_database',
                                 {'file': 'db' + suffix, 'encoding': hit.split('/')[-1].split(':')[0]},
                                 '%s: %s holds %s in plaintext (%d bytes scanned)' % (where, os.path.basename(p), hit, len(blob)))
        # the library's own log file lives in the same data directory (default configuration: WARNING and above)
        datadir = os.environ.get('BCL_DATA_DIR', '')
        for fn in sorted(os.listdir(datadir)) if datadir and os.path.isdir(datadir) else []:
            if not fn.startswith('bitcoinlib.log'):
                continue
            with open(os.path.join(datadir, fn), 'rb') as f:
                f.seek(self.log_offsets.get(fn, 0))
                blob = f.read()
                self.log_offsets[fn] = f.tell()
            self.w.probe('log_scanned')
            hit = self.reg.search_bytes(blob)
            if hit:
                self.w.violation('plaintext_private_material_in_log', {'encoding': hit.split('/')[-1].split(':')[0]},
                                 '%s: %s holds %s in plaintext' % (where, fn, hit))

    def call(self, label, fn):
        self.in_op = True
        try:
            r = fn()
            self.w.ops_ok += 1
            return True, r
        except StopRun:
            raise
        except SimCrash:
            self.in_op = False
            self.w.outcome('crashed', op=label)
            self.w.dirty_restart()
            self.scan('after crash')
            self.wl = self.BW.Wallet('encw', db_uri=self.db, db_cache_uri=self.cache)
            return False, 'crash'
        except Exception as e:
            self.w.outcome('raised', op=label, exc=type(e).__name__, msg=str(e)[:100])
            return False, e
        finally:
            self.in_op = False

    def step(self):
        ch, w = self.ch, self.w
        kind = ch.weighted('op', [('new_key', 5), ('fund', 3), ('update', 3), ('send', 4), ('reopen', 3), ('arm_crash', 2),
                                  ('scan', 3), ('new_account', 1), ('import_key', 2)])
        wl = self.wl
        if kind == 'new_key':
            how = ch.pick('how', ['new_key', 'new_key_change', 'get_key', 'get_keys'])
            w.op(how)
            if how == 'get_keys':
                self.call(how, lambda: wl.get_keys(number_of_keys=3) if wl.scheme != 'single' else wl.get_key())
            else:
                self.call(how, lambda: getattr(wl, how)())
        elif kind == 'fund':
            ok, addrs = self.call('addresslist', lambda: wl.addresslist(depth=-1) if wl.scheme == 'single' else wl.addresslist())
            if ok and addrs:
                a = addrs[ch.index('fa', len(addrs))]
                w.op('fund')
                self.chain.fund([(rcodec.address_to_script(a, self.network), ch.pick('fv', [1000000, 250000]))])
                self.chain.mine()
        elif kind == 'update':
            w.op('utxos_update')
            self.call('utxos_update', lambda: wl.utxos_update())
        elif kind == 'send':
            w.op('send')
            ext = rcodec.p2wpkh_address(rec.pub_from_priv(4242, True), self.network)
            ok, t = self.call('send', lambda: wl.send_to(ext, 50000, broadcast=ch.coin('bc', 0.6), min_confirms=0))
            if ok and t is not None and wl.scheme != 'single' and t.verified is False and not wl.multisig:
                w.probe('send_unverified')
            if ok and t is not None and t.verified:
                w.probe('wallet_signs_with_encrypted_storage')
            if ok and t is not None and ch.coin('tx_views', 0.5):
                # default text forms of the transaction the wallet has just created and signed, and of its listings
                buf = io.StringIO()
                views = [('WalletTransaction.as_dict()', t.as_dict), ('WalletTransaction.as_json()', t.as_json),
                         ('WalletTransaction.repr', lambda: repr(t)), ('WalletTransaction.export()', t.export),
                         ('Wallet.utxos()', wl.utxos),
                         ('Wallet.transactions(as_dict=True)', lambda: wl.transactions(as_dict=True, include_new=True))]
                for name, fn in views:
                    try:
                        text = fn()
                    except StopRun:
                        raise
                    except Exception as e:
                        w.probe('view_raised:%s' % type(e).__name__)
                        continue
                    if not isinstance(text, str):
                        text = json.dumps(text, default=repr) if isinstance(text, (dict, list)) else repr(text)
                    hit = self.reg.search_text(text)
                    w.probe('default_text_checked')
                    if hit:
                        w.violation('private_material_in_default_export', {'view': name},
                                    '%s of a wallet with encrypted storage contains %s' % (name, hit))
        elif kind == 'reopen':
            w.op('reopen')
            try:
                wl.session.close()
            except Exception:
                pass
            ok, r = self.call('open', lambda: self.BW.Wallet('encw', db_uri=self.db, db_cache_uri=self.cache))
            if ok:
                self.wl = r
                # encryption is not satisfied by storing nothing: the reopened wallet still has its private key
                ok2, mk = self.call('main_key', lambda: r.main_key.is_private if r.main_key else r.cosigner[0].main_key.is_private)
                if ok2 and mk is not True and not r.multisig:
                    w.violation('private_key_lost_with_encryption', {}, 'reopened wallet has no private main key')
            self.scan('after reopen')
        elif kind == 'arm_crash':
            self.crash_in = ch.int('crash_j', 1, 10)
            w.op('arm_crash', j=self.crash_in)
        elif kind == 'import_key':
            # an unrelated single private key, possibly one that was imported before
            if wl.scheme == 'bip32' and not wl.multisig:
                j = ch.index('imp_j', 3)
                priv = int.from_bytes(rhashes.sha256(b'c16 imported key %d' % j), 'big') % (rec.N - 1) + 1
                self.reg.add_priv(priv, 'imported%d' % j)
                wif = rcodec.wif_encode(priv, True, rcodec.NETWORKS[self.network]['wif'])
                w.op('import_key', j=j)
                self.call('import_key', lambda: wl.import_key(wif))
                self.scan('after import_key')
        elif kind == 'new_account':
            if wl.scheme == 'bip32' and not wl.multisig:
                w.op('new_account')
                self.call('new_account', lambda: wl.new_account())
        else:
            w.op('scan')
            self.scan('operation boundary')


def run_storage(world):
    sim = C16Storage(world)
    world.debug_ns = {'sim': sim}
    while sim.ch.next_op():
        sim.step()
    sim.ch.tail_block()
    sim.scan('final')
    world.info['storage_scans'] = sim.scans


def run(world):
    if world.arm_params.get('arm') == 'storage':
        run_storage(world)
    else:
        run_objects(world)
