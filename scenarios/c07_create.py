"""C07 — wallet-created transactions conserve value and pay exactly what was requested (DESIGN.md 6, C07)."""
from scenarios.wallet_world import WalletWorld, init_worker, nontrivial, ref_address, _STATE   # noqa: F401
from ref import codec as rcodec
from ref.txcodec import parse_tx

EPS = 0.25


class C07World(WalletWorld):
    OPS = [('send', 16), ('fund', 8), ('update', 7), ('new_key', 2), ('utxo_add', 3), ('sweep', 5), ('mine', 4),
           ('handles', 2), ('send_pending', 2), ('bumpfee', 4), ('advance', 2), ('delete', 1)]

    def ops_table(self):
        return self.OPS

    # -- helpers ---------------------------------------------------------------------------------------------
    def change_addresses(self, wi, h, own=False):
        """Reference-derived addresses of the wallet's change chain (own=True: receiving chain as well): as many as
        the wallet has issued, plus a margin."""
        if wi.kind == 'single':
            return {ref_address(wi, self.network, self.coin, 0, 0)['address']}
        res = set()
        for chg in ((0, 1) if own else (1,)):
            ok, n = self.observe(lambda: len(h.keys(change=chg, depth=h.key_depth, network=self.network)))
            n = (n if ok else 0) + 6
            res |= {ref_address(wi, self.network, self.coin, chg, i)['address'] for i in range(n)}
        return res

    def requested_amount(self, amt):
        return amt

    def check_tx(self, wi, h, t, request, outs, fee_arg, min_conf, utxos_before, stage, nco=1):
        w = self.w
        sig = {'api': request, 'stage': stage}
        fee_kind = 'auto' if fee_arg is None else ('named' if isinstance(fee_arg, str) else 'explicit')
        # 1. conservation on the object
        try:
            in_vals = [i.value for i in t.inputs]
            out_vals = [o.value for o in t.outputs]
        except Exception as e:
            w.violation('malformed_transaction_object', sig, repr(e))
        for v in out_vals:
            if not float(v).is_integer() or v < 0:
                w.violation('bad_output_value', sig, 'output value %r' % (v,))
        fee = t.fee
        if fee is None or fee < 0:
            w.violation('negative_or_missing_fee', sig, 'fee %r' % (fee,))
        if sum(in_vals) != sum(out_vals) + fee:
            w.violation('value_not_conserved', sig, 'inputs %r != outputs %r + fee %r' % (sum(in_vals), sum(out_vals), fee))
        # ... and on the serialization, against the chain's previous outputs
        ok, raw = self.observe(lambda: t.raw())
        if not ok:
            w.violation('transaction_does_not_serialize', sig, repr(raw))
        try:
            rt = parse_tx(bytes(raw))
        except Exception as e:
            w.violation('serialization_unparseable', sig, 'reference parser: %r' % (e,))
        chain_in = 0
        ops = []
        for vin in rt.vin:
            op = (vin.prev_txid_hex(), vin.vout)
            ops.append(op)
            if op not in self.chain.outs:
                w.violation('input_not_on_chain', sig, 'input %s:%d does not exist on the chain' % (op[0][:16], op[1]))
            chain_in += self.chain.outs[op][1]
        ser_out = sum(o.value for o in rt.vout)
        if chain_in != ser_out + fee:
            w.violation('value_not_conserved', dict(sig, view='serialized'),
                        'chain value of inputs %d != serialized outputs %d + reported fee %d' % (chain_in, ser_out, fee))
        if [(o.value) for o in rt.vout] != [int(v) for v in out_vals]:
            w.violation('object_differs_from_serialization', sig, 'output values %r vs serialized %r' %
                        (out_vals, [o.value for o in rt.vout]))
        # 3. inputs distinct, unspent, confirmed enough, owned
        if len(set(ops)) != len(ops):
            w.violation('duplicate_input', sig, 'inputs %s' % ops)
        eligible = {(u['txid'], u['output_n']) for u in utxos_before}
        rx0 = getattr(self, 'request_extra', {}) if request == 'send' and stage == 'created' else {}
        for op in ops:
            if rx0.get('input_arr') == 'spent' and op in wi.acked_spent and op not in eligible:
                # the caller listed an output the wallet itself had spent, and it was taken
                w.violation('input_not_eligible', dict(sig, explicit_inputs='spent'),
                            'explicitly listed input %s:%d was consumed by acknowledged send %s' %
                            (op[0][:16], op[1], wi.acked_spent[op][0][:16]))
                continue
            if op not in eligible:
                w.violation('input_not_eligible', sig,
                            'input %s:%d was not an unspent output of this wallet with >= %d confirmations '
                            '(wallet view before the call: %d eligible)' % (op[0][:16], op[1], min_conf, len(eligible)))
            if op in wi.acked_spent:
                w.violation('input_already_spent_by_wallet', sig, 'input %s:%d was consumed by acknowledged send %s' %
                            (op[0][:16], op[1], wi.acked_spent[op][0][:16]))
            if stage == 'created' and op not in self.chain.utxo:
                sp = self.chain.spent_by.get(op)
                if sp and sp[0] not in wi.unacked and sp[0] not in wi.sent and sp[0] != rt.txid():
                    w.probe('input_spent_on_chain_unknown_to_wallet')
        # ... and the selection constraints of the request
        rx = getattr(self, 'request_extra', {}) if request == 'send' and stage == 'created' else {}
        if rx.get('max_utxos') is not None and len(ops) > rx['max_utxos']:
            w.violation('max_utxos_exceeded', sig, '%d inputs with max_utxos=%s' % (len(ops), rx['max_utxos']))
        if rx.get('input_key_id') is not None:
            by_op = {(u['txid'], u['output_n']): u['key_id'] for u in utxos_before}
            other = [op for op in ops if by_op.get(op) != rx['input_key_id']]
            if other:
                w.violation('input_key_id_ignored', sig, 'inputs %s do not belong to key %s' % (other, rx['input_key_id']))
        if rx.get('locktime') and rt.locktime != rx['locktime']:
            w.violation('locktime_ignored', sig, 'asked locktime %s, transaction has %s' % (rx['locktime'], rt.locktime))
        if rx.get('random_output_order') is False and request == 'send':
            want_scripts = [rcodec.address_to_script(a, self.network) for a, v in outs if v is not None]
            got_scripts = [o.script_pubkey for o in rt.vout][:len(want_scripts)]
            if got_scripts != want_scripts:
                w.probe('fixed_output_order_not_kept')
        # 2. recipients and change
        want = []
        for addr, amt in outs:
            if amt is None:
                continue
            want.append((rcodec.address_to_script(addr, self.network), amt))
        rest = [(o.script_pubkey, o.value) for o in rt.vout]
        for item in want:
            if item in rest:
                rest.remove(item)
            else:
                w.violation('recipient_not_paid_exactly', sig,
                            'requested %d to %s; serialized outputs %s' %
                            (item[1], rcodec.script_to_address(item[0], self.network),
                             [(rcodec.script_to_address(s, self.network), v) for s, v in
                              [(o.script_pubkey, o.value) for o in rt.vout]]))
        open_rest = [a for a, amt in outs if amt is None]
        if open_rest:
            # sweep: the remaining output(s) go to the named rest address(es)
            for a in open_rest:
                s = rcodec.address_to_script(a, self.network)
                hit = [x for x in rest if x[0] == s]
                if hit:
                    rest.remove(hit[0])
        if rest:
            change = self.change_addresses(wi, h)
            for s, v in rest:
                a = rcodec.script_to_address(s, self.network)
                if a not in change:
                    w.violation('extra_output_not_to_change_address', sig,
                                'output of %d to %s is neither requested nor a change address of this wallet' % (v, a))
        if request != 'sweep':
            flagged = [bool(o.change) for o in t.outputs]
            n_change = sum(flagged)
            if n_change != len(rest):
                w.violation('change_flag_wrong', sig, '%d outputs flagged change, %d non-requested outputs' %
                            (n_change, len(rest)))
        # 4. fee-rate limits
        vs = rt.vsize()
        net = self.netobj
        if t.verified:
            hi = net.fee_max * vs / 1000.0 * (1 + EPS)
            lo = net.fee_min * vs / 1000.0 * (1 - EPS)
            if fee > hi + 1 or fee < lo - 1:
                w.violation('fee_rate_out_of_bounds', dict(sig, side='high' if fee > hi else 'low', fee_arg=fee_kind,
                                                           change_outputs='random' if nco == 0 else 'fixed',
                                                           witness=wi.wt, multisig=wi.kind == 'ms'),
                            'fee %d for %d vbytes; network limits %d..%d sat/kB' % (fee, vs, net.fee_min, net.fee_max))
        w.probe('transaction_checked')
        w.state_sig(wi.kind, wi.wt, request, len(ops) if len(ops) < 4 else 4, len(rt.vout) if len(rt.vout) < 5 else 5,
                    str(fee_arg)[:6], stage)

    # -- hooks -----------------------------------------------------------------------------------------------
    def on_created(self, wi, h, t, request, outs, fee, min_conf, utxos_before, nco):
        self.check_tx(wi, h, t, request, outs, fee, min_conf, utxos_before, 'created', nco)
        if t.pushed and t.txid in self.chain.txs:
            # what the network received
            c = self.chain.txs[t.txid]
            if sum(c.in_values) - sum(o.value for o in c.tx.vout) != t.fee:
                self.w.violation('value_not_conserved', {'api': request, 'stage': 'broadcast'},
                                 'network fee %d, reported fee %d' % (c.fee, t.fee))

    def on_refused(self, wi, request, outs, fee, min_conf, utxos_before, exc):
        total = sum(u['value'] for u in utxos_before)
        need = sum(v for _, v in outs if v)
        if need and total > need * 1.3 + 50000 and not isinstance(exc, str):
            self.w.probe('refused_feasible')

    @staticmethod
    def bump_change(wi):
        """Scripts of the outputs fee bumps added for this wallet's own change (bumpfee pays them to a receiving-chain
        key); a requested recipient they are not, later bumps may draw on them."""
        if not hasattr(wi, 'bump_change_spk'):
            wi.bump_change_spk = set()
        return wi.bump_change_spk

    def on_bumped(self, wi, h, t, old_fee, old_txid):
        w = self.w
        sig = {'api': 'bumpfee', 'stage': 'bumped'}
        old = self.chain.txs[old_txid]
        if not (t.fee > old_fee):
            w.violation('bumpfee_not_higher', sig, 'fee %r -> %r' % (old_fee, t.fee))
        ok, raw = self.observe(lambda: t.raw())
        if not ok:
            w.violation('transaction_does_not_serialize', sig, repr(raw))
        rt = parse_tx(bytes(raw))
        chain_in = 0
        for vin in rt.vin:
            op = (vin.prev_txid_hex(), vin.vout)
            if op not in self.chain.outs:
                w.violation('input_not_on_chain', sig, 'input %s:%d' % (op[0][:16], op[1]))
            chain_in += self.chain.outs[op][1]
        if chain_in != sum(o.value for o in rt.vout) + t.fee:
            w.violation('value_not_conserved', sig, 'inputs %d != outputs %d + fee %d' %
                        (chain_in, sum(o.value for o in rt.vout), t.fee))
        if len({(v.prev_txid_hex(), v.vout) for v in rt.vin}) != len(rt.vin):
            w.violation('duplicate_input', sig, 'after bumpfee')
        # recipients unchanged: every non-change output of the old transaction is still paid exactly
        change = self.change_addresses(wi, h)
        new_outs = [(o.script_pubkey, o.value) for o in rt.vout]
        for o in old.tx.vout:
            a = rcodec.script_to_address(o.script_pubkey, self.network)
            if a in change or o.script_pubkey in self.bump_change(wi):
                continue        # change, incl. the receiving-chain change output an earlier bump added
            if (o.script_pubkey, o.value) in new_outs:
                new_outs.remove((o.script_pubkey, o.value))
            else:
                w.violation('recipient_not_paid_exactly', sig, 'after bumpfee %s no longer receives %d' % (a, o.value))
        own = None
        for s, v in new_outs:
            a = rcodec.script_to_address(s, self.network)
            if a not in change:
                own = own or self.change_addresses(wi, h, own=True)
                if a in own:
                    w.probe('change_paid_to_receiving_chain_address')     # same wallet, not the change chain
                    self.bump_change(wi).add(s)
                    continue
                w.violation('extra_output_not_to_change_address', sig, 'after bumpfee: %d to %s' % (v, a))
        # output numbering must match the serialization order
        ns = [o.output_n for o in t.outputs]
        if ns != list(range(len(ns))):
            w.violation('output_n_not_sequential', sig, 'output_n after bumpfee: %s' % ns)
        w.probe('bumpfee_checked')

    def on_bumped_pending(self, wi, h, t, old_fee, old_outs):
        """Fee bump of a not yet broadcast transaction: same clauses as for a created transaction."""
        w = self.w
        sig = {'api': 'bumpfee', 'stage': 'bumped_unsent'}
        if not (t.fee > old_fee):
            w.violation('bumpfee_not_higher', sig, 'fee %r -> %r' % (old_fee, t.fee))
        ok, raw = self.observe(lambda: t.raw())
        if not ok:
            w.violation('transaction_does_not_serialize', sig, repr(raw))
        rt = parse_tx(bytes(raw))
        ops = [(v.prev_txid_hex(), v.vout) for v in rt.vin]
        if len(set(ops)) != len(ops):
            w.violation('duplicate_input', sig, 'after bumpfee the transaction spends %s' % ops)
        chain_in = 0
        for op in ops:
            if op not in self.chain.outs:
                w.violation('input_not_on_chain', sig, 'input %s:%d' % (op[0][:16], op[1]))
            chain_in += self.chain.outs[op][1]
            if op in wi.acked_spent and op not in self.bump_old_inputs:
                w.violation('input_already_spent_by_wallet', sig, 'added input %s:%d was consumed by acknowledged send %s' %
                            (op[0][:16], op[1], wi.acked_spent[op][0][:16]))
        if chain_in != sum(o.value for o in rt.vout) + t.fee:
            w.violation('value_not_conserved', sig, 'chain value of inputs %d != outputs %d + fee %d' %
                        (chain_in, sum(o.value for o in rt.vout), t.fee))
        new_outs = [(o.script_pubkey, o.value) for o in rt.vout]
        for spk, val, is_change in old_outs:
            if is_change:
                continue
            if (spk, val) in new_outs:
                new_outs.remove((spk, val))
            else:
                w.violation('recipient_not_paid_exactly', sig, 'after bumpfee %s no longer receives %d' %
                            (rcodec.script_to_address(spk, self.network), val))
        own = self.change_addresses(wi, h, own=True)
        for spk, val in new_outs:
            a = rcodec.script_to_address(spk, self.network)
            if a not in own:
                w.violation('extra_output_not_to_change_address', sig, 'after bumpfee: %d to %s' % (val, a))
            self.bump_change(wi).add(spk)
        ns = [o.output_n for o in t.outputs]
        if ns != list(range(len(ns))):
            w.violation('output_n_not_sequential', sig, 'output_n after bumpfee: %s' % ns)
        w.probe('bumpfee_unsent_checked')

    def finish(self):
        pass


def run(world):
    sim = C07World(world)
    world.debug_ns = {'sim': sim}
    while sim.ch.next_op():
        sim.step()
    sim.ch.tail_block()
    sim.finish()
