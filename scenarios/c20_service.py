"""C20 — Service layer fails over between providers and never fabricates answers (DESIGN.md 6, C20).

World: 1-2 real Service objects (real Cache on real SQLite files) over k <= 4 simulated providers that answer
from a SimChain view or misbehave per invocation; simulated clock; cache wipes; background chain activity.
Oracles: FailoverModel per _provider_execute execution, no-fabrication (identity / FactSet membership) per
query, cache fidelity (replay with every provider down), bounded liveness once faults stop, and an
exhaustively enumerated slice (all outcome assignments x all priority orders) per run.
"""
import itertools
import os
import re
import shutil
import sqlite3

from simkit import providers as P
from simkit.providers import CTX
from simkit.simchain import SimChain, View
from simkit.actors import RefKey, spend
from simkit.world import StopRun

EXECS = []
_STATE = {'active': False}

ANSWER_KINDS = ('ok', 'stale', 'empty', 'malformed')
TXID_NONE = '00' * 32


def init_worker(datadir):
    import bitcoinlib.services.services as S
    _STATE['datadir'] = datadir
    P.install(datadir, [], 'bitcoin')
    orig = S.Service._provider_execute

    def wrapped(self, method, *arguments):
        if not _STATE['active']:
            return orig(self, method, *arguments)
        rec = {'method': method, 'args': arguments, 'c0': len(CTX.calls), 'i0': len(CTX.instantiations),
               'returned': False, 'ret': None, 'exc': None, 'max_providers': self.max_providers,
               'max_errors': self.max_errors, 'ignore_priority': self.ignore_priority,
               'prio': {k: v['priority'] for k, v in self.providers.items()}, 'seq': CTX.world.log.seq,
               'srv': id(self), 'cache_file': getattr(self, 'cache_uri', None)}
        EXECS.append(rec)
        try:
            r = orig(self, method, *arguments)
            rec['returned'] = True
            rec['ret'] = r
            return r
        except Exception as e:
            rec['exc'] = e
            raise
        finally:
            rec['c1'] = len(CTX.calls)
            rec['i1'] = len(CTX.instantiations)
    S.Service._provider_execute = wrapped


def nontrivial(res):
    q = sum(v for k, v in res['ops'].items() if k.startswith('q_'))
    return q >= 5 and res['ops_ok'] >= 1


# ---------------------------------------------------------------------------------------------
# snapshots of library objects at provider-return time (the library mutates them later)

def snap_tx(t):
    try:
        ins = []
        for i in t.inputs:
            ins.append([i.prev_txid.hex(), i.output_n_int, i.value, i.address, i.sequence,
                        bytes(i.unlocking_script).hex(), [bytes(w).hex() for w in i.witnesses]])
        outs = []
        for o in t.outputs:
            outs.append([o.value, bytes(o.lock_script).hex(), o.address, o.output_n])
        try:
            raw = t.raw_hex()
        except Exception:
            raw = None
        return {'txid': t.txid, 'version': t.version_int, 'locktime': t.locktime, 'block_height': t.block_height,
                'fee': t.fee, 'inputs': ins, 'outputs': outs, 'spent': [o.spent for o in t.outputs], 'raw': raw,
                'confirmations': t.confirmations}
    except Exception as e:
        return {'unsnappable': type(e).__name__}


def is_tx(x):
    from bitcoinlib.transactions import Transaction
    return isinstance(x, Transaction)


def strict_part(s):
    return {k: v for k, v in s.items() if k not in ('spent', 'confirmations')}


# ---------------------------------------------------------------------------------------------

class C20:
    def __init__(self, world):
        import bitcoinlib.services.services as S
        from bitcoinlib.networks import Network
        self.S = S
        self.w = world
        self.ch = world.ch
        ch = self.ch
        self.tier = world.tier
        # ---- swarm configuration (block 0)
        self.network = ch.pick('network', ['bitcoin', 'testnet', 'litecoin'])
        self.netobj = Network(self.network)
        self.k = ch.weighted('k', [(2, 3), (1, 1), (3, 4), (4, 2)])
        self.prios = [ch.pick('prio', [10, 10, 20, 5, 10]) for _ in range(self.k)]
        self.min_providers = ch.weighted('minp', [(1, 8), (2, 1)])
        self.max_providers = max(self.min_providers, ch.weighted('maxp', [(1, 6), (2, 2), (3, 1)]))
        self.max_errors = ch.weighted('maxe', [(4, 4), (1, 2), (2, 3), (3, 2), (5, 1)])
        self.ignore_priority = ch.coin('ignprio', 0.2)
        self.fault_rate = ch.weighted('frate', [(0.0, 3), (0.1, 3), (0.25, 4), (0.5, 2), (0.8, 1)])
        kinds = ['raise', 'false', 'stale', 'empty', 'malformed', 'slow']
        en = ch.subset('fkinds', len(kinds), 0.45)
        self.fault_kinds = [kinds[i] for i in en] or ['raise']
        self.honest_views = ch.coin('honest_views', 0.5)
        if self.honest_views:
            # providers may fail (raise / False / time out) but never disagree about the chain
            self.fault_kinds = [x for x in self.fault_kinds if x in ('raise', 'false', 'slow')] or ['raise']
        self.spare_blockcount = ch.coin('spare_bc', 0.6)
        self.bc_cache_time = ch.pick('bcct', [3, 0, 1, 10])
        self.lags = [ch.weighted('lag', [(0, 6), (1, 2), (2, 1)]) for _ in range(self.k)]
        self.nomempool = [ch.coin('nomp', 0.15) for _ in range(self.k)]
        if self.honest_views:
            self.lags = [0] * self.k
            self.nomempool = [False] * self.k
        self.missing = {}
        if ch.coin('has_missing', 0.2):
            pid = ch.index('missing_pid', self.k)
            self.missing[pid] = {ch.pick('missing_m', ['gettransactions', 'getutxos', 'estimatefee', 'getblock',
                                                        'isspent', 'mempool', 'getbalance', 'getrawtransaction'])}
        self.two_services = ch.coin('two_srv', 0.3)
        self.shared_cache = ch.coin('shared_cache', 0.6)
        self.n_ops = ch.int('n_ops', 12, 40)
        ch.set_ops(self.n_ops)
        world.install(clock_start_offset=ch.int('clock0', 0, 10 ** 6), entropy_seed=ch.seed,
                      lib_seed=ch.int('libseed', 0, 2 ** 31))
        S.BLOCK_COUNT_CACHE_TIME = self.bc_cache_time
        # ---- world
        self.chain = SimChain(world.clock, start_height=ch.int('h0', 100, 800000))
        CTX.reset()
        CTX.world = world
        CTX.chain = self.chain
        CTX.network = self.network
        CTX.behave = self.behave
        self.layer = world.arm_params.get('layer', 'stub')
        CTX.ctor_faults = self.layer == 'stub'
        self.ctor_fault_p = ch.pick('ctor_fault_p', [0.0, 0.0, 0.08, 0.2]) if self.layer == 'stub' else 0.0
        CTX.on_call = self.on_call
        CTX.views = {p: View(lag=self.lags[p], mempool=not self.nomempool[p]) for p in range(self.k)}
        CTX.fee_base = {p: ch.pick('feebase', [20000, 5000, 150000, 900, 4000000]) for p in range(self.k)}
        CTX.missing = self.missing
        # some providers do not report whether an output is spent when asked for a single transaction or a block
        CTX.spent_unknown = {p_ for p_ in range(self.k) if ch.coin('spent_unknown', 0.3)}
        # layer B: the library's own Esplora clients over a fake HTTP transport instead of stub client classes
        self.layer = world.arm_params.get('layer', 'stub')
        if self.layer == 'http':
            from simkit import httpsim
            httpsim.install()
            httpsim.HTTP.__init__()
            self.http_clients = [ch.pick('client', ['blockstream', 'mempool']) for _ in range(self.k)]
            self.missing = {}
            CTX.missing = {}
        self.write_providers([(p, self.prios[p]) for p in range(self.k)])
        self.mode = 'faulty'       # 'calm' (all ok) | 'down' (all raise) | 'faulty'
        self.assign = None         # exhaustive slice: {pid: kind} for one target method
        self.assign_method = None
        self.malformed_fired = False
        self.lied = False
        self.true_bal = {}
        self.facts_tx = {}         # txid -> list of snapshots ever returned by a provider / served
        self.facts_bc = set()
        self.bc_exec_at = {}
        # life time the library documents for a stored block count ("Store network blockcount in cache for N seconds")
        m = re.search(r'for (\d+) seconds', S.Cache.store_blockcount.__doc__ or '')
        self.bc_doc_ttl = int(m.group(1)) if m else None
        self.facts_fee = {}        # bucket -> set of raw provider answers
        self.facts_spent = {}      # (txid, n) -> set of bools
        self.facts_out = {}        # (txid, n) -> set((value, address))
        self.services = []
        self.last_ok = {}          # (method, args) -> result snapshot for fidelity replay
        self.lied = any(self.lags) or any(self.nomempool)
        if self.layer == 'http':
            # the real clients have conventions of their own (confirmations, paging, order inside a block, unknown spent
            # state): comparisons with the chain's truth are off, everything is judged against what the clients returned
            self.lied = True
        self.populate()
        world.log.ev('config', network=self.network, k=self.k, prios=self.prios, minp=self.min_providers,
                     maxp=self.max_providers, maxe=self.max_errors, ignp=self.ignore_priority,
                     frate=self.fault_rate, fkinds=self.fault_kinds, lags=self.lags)

    def write_providers(self, prios):
        if self.layer == 'http':
            from simkit import httpsim
            httpsim.write_providers_json(_STATE['datadir'], [{'pid': p, 'priority': pr, 'provider': self.http_clients[p]}
                                                              for p, pr in prios], self.network)
        else:
            P.write_providers_json(_STATE['datadir'], [{'pid': p, 'priority': pr} for p, pr in prios], self.network)

    # -- chain population -----------------------------------------------------------------------------
    def populate(self):
        ch, chain = self.ch, self.chain
        n = ch.int('n_addr', 3, 6)
        self.keys = [RefKey('a%d' % i, RefKey.KINDS[(i + ch.index('kind0', 3)) % 3], self.network) for i in range(n)]
        self.by_script = {k.script: k for k in self.keys}
        for k in self.keys:
            outs = [(k.script, ch.pick('fundv', [100000, 5000000, 250000, 12345678, 600]))
                    for _ in range(ch.int('nfund', 1, 3))]
            chain.fund(outs, sequence=ch.pick('fund_seq', [0xffffffff, 0xffffffff, 0xfffffffd, 0]),
                       version=ch.pick('fund_ver', [2, 2, 1]))
        chain.mine()
        busy = self.keys[0]
        for _ in range(ch.pick('busy', [0, 0, 8, 25])):
            chain.fund([(busy.script, 70000)])
            if ch.coin('busymine', 0.3):
                chain.mine()
        chain.mine()
        for _ in range(ch.int('n_spends', 2, 12)):
            self.background_spend()
            if ch.coin('minebg', 0.4):
                chain.mine()
        if ch.coin('confirm_all', 0.5):
            chain.mine()
        self.unused = RefKey('unused', 'p2wpkh', self.network)

    def background_spend(self):
        ch, chain = self.ch, self.chain
        mine = [(op, v) for op, v in chain.utxo.items() if v[0] in self.by_script]
        if not mine:
            return False
        mine.sort()
        op, (spk, val) = mine[ch.index('bg_utxo', len(mine))]
        if val < 3000:
            return False
        dest = self.keys[ch.index('bg_dest', len(self.keys))]
        amount = max(600, val * ch.int('bg_pct', 10, 90) // 100)
        fee = min(val - amount, ch.pick('bg_fee', [500, 1500, 300]))
        outs = [(dest.script, amount)]
        if val - amount - fee > 600:
            outs.append((spk, val - amount - fee))
        # sequence numbers and versions as they occur on a chain (0 and 1 included: values a falsy test mistakes for
        # 'not given')
        seq = ch.pick('bg_seq', [0xffffffff, 0xffffffff, 0xffffffff, 0xfffffffe, 0xfffffffd, 0, 0, 1])
        ver = ch.pick('bg_ver', [2, 2, 1])
        ok, reason, txid = spend(chain, self.by_script, [op], outs, sequence=seq, version=ver)
        if not ok:
            raise RuntimeError("background spend rejected: %s" % reason)
        return True

    # -- provider behaviour -----------------------------------------------------------------------------
    def behave(self, pid, method, args):
        ch = self.ch
        if self.assign is not None:
            if method == self.assign_method:
                kind = self.assign[pid]
                return self._fault(kind, pid, method, args, enumerated=True)
            return ('ok', None)
        if method == '__init__':
            if self.mode == 'faulty' and self.fault_rate and self.ctor_fault_p and ch.coin('pf_ctor', self.ctor_fault_p):
                return ('raise', 'ClientError')
            return ('ok', None)
        if self.mode == 'down':
            return ('raise', 'ClientError')
        if self.mode == 'calm' or not self.fault_rate:
            return ('ok', None)
        if method == 'blockcount' and self.spare_blockcount:
            return ('ok', None)
        if not ch.coin('pf', self.fault_rate):
            return ('ok', None)
        kind = ch.pick('pfk', self.fault_kinds)
        return self._fault(kind, pid, method, args)

    def _fault(self, kind, pid, method, args, enumerated=False):
        ch = self.ch
        if kind == 'ok':
            return ('ok', None)
        if kind == 'raise':
            exc = 'ClientError' if enumerated else ch.pick('pfe', ['ClientError', 'ReadTimeout', 'ConnectionError',
                                                                   'KeyError', 'Exception'])
            return ('raise', exc)
        if kind == 'false':
            return ('false', None)
        if kind in ('stale', 'empty', 'malformed'):
            self.lied = True
        if kind == 'stale':
            return ('stale', {'lag': ch.int('pfl', 1, 3), 'mempool': ch.coin('pfm', 0.5)})
        if kind == 'slow':
            return ('slow', {'dt': ch.pick('pfdt', [2, 61, 601]), 'timeout': ch.coin('pfto', 0.5)})
        if kind == 'empty':
            val = {'blockcount': 0, 'estimatefee': 0, 'getbalance': 0, 'getutxos': [], 'gettransactions': [],
                   'gettransaction': None, 'getrawtransaction': '', 'mempool': [], 'getblock': {}, 'isspent': 0,
                   'getinfo': {}, 'sendrawtransaction': {}}.get(method, None)
            return ('empty', {'value': val})
        if kind == 'malformed':
            self.malformed_fired = True
            return ('malformed', self._malformed(method, args))
        raise RuntimeError(kind)

    def _malformed(self, method, args):
        chain = self.chain
        if method == 'gettransaction':
            others = sorted(t for t in chain.txs if t != args[0])

            def make(client, view):
                c = chain.txs[others[len(args[0]) % len(others)]]
                return client._txobj(c, View())
            return {'shape': 'wrong_txid', 'make': make}
        if method == 'gettransactions':
            return {'shape': 'list_of_dicts', 'make': lambda c, v: [{'txid': 'ab' * 32}]}
        if method == 'getutxos':
            return {'shape': 'missing_keys', 'make': lambda c, v: [{'txid': 'cd' * 32, 'output_n': 0}]}
        if method == 'getblock':
            return {'shape': 'missing_keys', 'make': lambda c, v: {'block_hash': 'ef' * 32, 'height': 1}}
        if method in ('blockcount', 'estimatefee', 'getbalance'):
            return {'shape': 'string', 'make': lambda c, v: 'not-a-number'}
        return {'shape': 'string', 'make': lambda c, v: 'garbage'}

    def on_call(self, rec):
        """Every provider return value that is an answer becomes a set of facts."""
        v = rec['value']
        m = rec['method']
        if rec.get('survived_fault'):
            self.malformed_fired = True     # layer B: a corrupted body got through the client as an answer
            self.lied = True
            from simkit.httpsim import HARD
            if rec['survived_fault'] in HARD:
                # a provider whose HTTP exchange failed outright has not answered: the client has to raise
                self.w.violation('http_failure_passed_on_as_answer',
                                 {'method': m, 'flavor': rec['survived_fault'], 'client': rec.get('client')},
                                 '%s.%s returned %s although a request of the call failed with %s' %
                                 (rec.get('client'), m, short(v), rec['survived_fault']))
        if rec['exc'] is not None or rec['kind'] not in ANSWER_KINDS:
            return
        if m == 'blockcount':
            if isinstance(v, int) and not isinstance(v, bool):
                self.facts_bc.add(v)
        elif m == 'estimatefee':
            self.facts_fee.setdefault(self.bucket(rec['args'][0]), set()).add(v if isinstance(v, int) else repr(v))
        elif m == 'gettransaction' and is_tx(v):
            rec['snap'] = snap_tx(v)
            self.add_tx_fact(rec['snap'])
        elif m == 'gettransactions' and isinstance(v, list):
            rec['snap'] = [snap_tx(t) if is_tx(t) else None for t in v]
            for s in rec['snap']:
                if s:
                    self.add_tx_fact(s)
        elif m == 'getblock' and isinstance(v, dict) and isinstance(v.get('txs'), list):
            rec['snap'] = [snap_tx(t) if is_tx(t) else t for t in v['txs']]
            for s in rec['snap']:
                if isinstance(s, dict):
                    self.add_tx_fact(s)
        elif m == 'getutxos' and isinstance(v, list):
            rec['snap'] = [dict(u) if isinstance(u, dict) else u for u in v]
            for u in v:
                if isinstance(u, dict) and 'value' in u and 'txid' in u and 'output_n' in u:
                    self.facts_out.setdefault((u['txid'], u['output_n']), set()).add((u['value'], u.get('address')))
                    self.facts_spent.setdefault((u['txid'], u['output_n']), set()).add(False)
        elif m == 'isspent':
            self.facts_spent.setdefault((rec['args'][0], rec['args'][1]), set()).add(bool(v))

    def add_tx_fact(self, s):
        if 'unsnappable' in s:
            return
        lst = self.facts_tx.setdefault(s['txid'], [])
        if s not in lst:
            lst.append(s)
        for o, sp in zip(s['outputs'], s['spent']):
            self.facts_out.setdefault((s['txid'], o[3]), set()).add((o[0], o[2]))
            self.facts_spent.setdefault((s['txid'], o[3]), set()).add(sp)

    @staticmethod
    def bucket(blocks):
        return 'high' if blocks <= 1 else ('medium' if blocks <= 5 else 'low')

    # -- services ------------------------------------------------------------------------------------
    def cache_path(self, i):
        return os.path.join(self.w.scratch, 'cache%d.sqlite' % i)

    def new_service(self, slot):
        """(Re)create the Service in `slot`; construction itself performs a blockcount query."""
        S = self.S
        ci = 0 if (self.shared_cache or slot == 0) else 1
        e0 = len(EXECS)
        self.w.op('new_service', slot=slot, cache=ci)
        try:
            srv = S.Service(network=self.network, min_providers=self.min_providers, max_providers=self.max_providers,
                            cache_uri=self.cache_path(ci), ignore_priority=self.ignore_priority,
                            max_errors=self.max_errors, timeout=5)
        except StopRun:
            raise
        except Exception as e:
            self.w.outcome('constructor_failed', exc=type(e).__name__, msg=str(e)[:80])
            self.check_execs(EXECS[e0:])
            self.check_failed_query('blockcount', EXECS[e0:], e)
            return None
        self.check_execs(EXECS[e0:])
        self.check_blockcount_value(srv._blockcount, EXECS[e0:], 'constructor', srv)
        self.w.outcome('ok', blockcount=srv._blockcount if isinstance(srv._blockcount, (int, bool)) or
                       srv._blockcount is None else repr(srv._blockcount))
        while len(self.services) <= slot:
            self.services.append(None)
        self.services[slot] = srv
        return srv

    def service(self):
        slots = 2 if self.two_services else 1
        slot = self.ch.index('slot', slots)
        if slot < len(self.services) and self.services[slot] is not None:
            return self.services[slot]
        return self.new_service(slot)

    # -- FailoverModel ------------------------------------------------------------------------------------
    def check_execs(self, execs):
        for e in execs:
            self.check_exec(e)
            if e['method'] == 'blockcount':
                # end-of-call time of the last provider execution for the block count, per Service and per cache file
                now = self.w.clock.now
                self.bc_exec_at[('srv', e['srv'])] = now
                self.bc_exec_at[('cache', e['cache_file'])] = now

    def check_exec(self, e):
        w = self.w
        calls = CTX.calls[e['c0']:e['c1']]
        insts = [p for _, p in CTX.instantiations[e['i0']:e['i1']]]
        method = e['method']
        sig = {'method': method}
        prio = {int(k[3:]): v for k, v in e['prio'].items()}
        # each provider at most once
        if len(set(insts)) != len(insts):
            w.violation('provider_asked_twice', sig, 'providers instantiated %s in one execution' % insts)
        if not e['ignore_priority']:
            ps = [prio[p] for p in insts]
            if any(a < b for a, b in zip(ps, ps[1:])):
                w.violation('priority_order', sig, 'providers tried in order %s with priorities %s' % (insts, ps))
            if insts:
                low = min(ps)
                skipped = [p for p in prio if prio[p] > low and p not in insts]
                if skipped:
                    w.violation('priority_order', sig, 'provider(s) %s with higher priority never tried (tried %s)' %
                                (skipped, insts))
        answers = [c for c in calls if c['kind'] in ANSWER_KINDS and c['exc'] is None]
        errors = [c for c in calls if not (c['kind'] in ANSWER_KINDS and c['exc'] is None)]
        untried = [p for p in prio if p not in insts]
        n_err = len(errors)
        if e['returned']:
            r = e['ret']
            if answers:
                if not any(r is a['value'] for a in answers):
                    w.violation('fabricated_result', sig,
                                'execution returned %r which is no provider answer of this call (answers: %s)' %
                                (short(r), [short(a['value']) for a in answers]))
            else:
                if r is not False:
                    w.violation('fabricated_result', sig, 'no provider answered but execution returned %r' % short(r))
                elif untried and n_err < e['max_errors']:
                    w.violation('gave_up_early', sig, 'failed with providers %s untried and %d < %d errors' %
                                (untried, n_err, e['max_errors']))
                elif n_err >= e['max_errors'] and untried:
                    w.probe('max_errors_hit_with_provider_left')
            if answers and len(answers) < e['max_providers'] and untried and n_err < e['max_errors']:
                # stopping before max_providers answers is only allowed when providers are exhausted / error limit
                w.probe('stopped_before_max_providers')
        else:
            if answers:
                w.violation('failed_despite_answer', sig, 'execution raised %r although provider(s) %s answered' %
                            (e['exc'], [a['pid'] for a in answers]))
            elif untried and n_err < e['max_errors']:
                w.violation('gave_up_early', sig, 'raised with providers %s untried and %d < %d errors' %
                            (untried, n_err, e['max_errors']))
        w.state_sig('exec', method, tuple(c['kind'] for c in calls), e['returned'], len(untried))

    def check_failed_query(self, name, execs, exc=None):
        """A query failed (raised, or returned the failure value False): legal only if some provider execution of it
        legitimately failed, or a provider gave an empty / malformed answer the library refused."""
        for e in execs:
            if not e['returned'] or e['ret'] is False:
                return
        for e in execs:
            for c in CTX.calls[e['c0']:e['c1']]:
                if c['kind'] in ('malformed', 'empty'):
                    return
        if self.poisoned():
            return
        if name == 'blockcount' and not execs:
            # a failed block count is remembered for BLOCK_COUNT_CACHE_TIME seconds; failing again is not fabrication
            self.w.probe('blockcount_failure_remembered')
            return
        self.w.violation('failed_without_failed_execution',
                         {'method': name, 'how': type(exc).__name__ if exc is not None else 'False'},
                         'query %s failed (%s) although every provider execution succeeded with a well-formed answer'
                         % (name, repr(exc)[:200] if exc is not None else 'returned False'))

    # -- query-level oracles ------------------------------------------------------------------------------
    def check_blockcount_value(self, v, execs, where, srv=None):
        w = self.w
        if srv is not None and isinstance(v, int) and v and not any(e['method'] == 'blockcount' for e in execs):
            # served from memory or from the cache file without asking anybody: the copy is at most as old as the
            # documented life times (BLOCK_COUNT_CACHE_TIME in memory, the stored entry's documented N seconds)
            if self.bc_doc_ttl is None:
                w.probe('blockcount_ttl_undocumented')
            else:
                cf = getattr(srv, 'cache_uri', None)
                last = max(self.bc_exec_at.get(('srv', id(srv)), -1e18), self.bc_exec_at.get(('cache', cf), -1e18))
                age = w.clock.now - last
                w.probe('blockcount_from_cache')
                if age > max(self.bc_doc_ttl, self.bc_cache_time) + 1:
                    w.violation('expired_cache_answer', {'method': 'blockcount'},
                                '%s: block count %r served without asking a provider %.0f s after the last provider '
                                'answer was stored (documented life time %d s, BLOCK_COUNT_CACHE_TIME %d s)' %
                                (where, v, age, self.bc_doc_ttl, self.bc_cache_time))
        if v is False or v is None:
            if any(e['ret'] is False or not e['returned'] for e in execs) or not self.facts_bc:
                return
            w.violation('fabricated_blockcount', {'method': 'blockcount'}, '%s: block count %r' % (where, v))
        this_call = [c['value'] for e in execs for c in CTX.calls[e['c0']:e['c1']]
                     if c['method'] == 'blockcount' and c['kind'] in ANSWER_KINDS and c['exc'] is None]
        if any(v is x or (type(v) is type(x) and v == x) for x in this_call):
            return
        if isinstance(v, int) and v in self.facts_bc:
            return
        w.violation('fabricated_blockcount', {'method': 'blockcount'},
                    '%s: block count %r was never answered by any provider (answers so far %s)' %
                    (where, v, sorted(self.facts_bc)[-5:]))

    def q_blockcount(self, srv):
        return self.run_query(srv, 'blockcount', (), {})

    def run_query(self, srv, name, args, kwargs, replay=False):
        """Run one Service query, apply FailoverModel + query oracle.  Returns (ok, value)."""
        S = self.S
        w = self.w
        e0 = len(EXECS)
        srv.results_cache_n = 0
        self._pre_model = None
        self._pre_addr = None
        self._pre_cover = None
        if name == 'gettransactions':
            self._pre_cover = ('set', self.cached_address_cover(srv, args[0]))
        if name == 'getutxos':
            self._pre_addr = ('set', self.cached_address_row(srv, args[0]))
        if name == 'gettransactions' and kwargs.get('after_txid'):
            self._pre_model = ('set', self.cache_model_history(srv, args[0], kwargs['after_txid'],
                                                               kwargs.get('limit', S.MAX_TRANSACTIONS)),
                               self.cached_ids_of(srv, args[0]))
        if not replay:
            w.op('q_' + name, args=logargs(args), kw=kwargs)
        exc = None
        ret = None
        try:
            ret = getattr(srv, name)(*args, **kwargs)
        except S.ServiceError as e:
            exc = e
        except StopRun:
            raise
        except Exception as e:
            exc = e
        execs = EXECS[e0:]
        self.check_execs(execs)
        if exc is not None:
            w.outcome('raised', exc=type(exc).__name__, msg=str(exc)[:100], cache_n=srv.results_cache_n)
            self.check_failed_query(name, execs, exc)
            return False, exc
        if ret is False and name != 'isspent':
            w.outcome('false', cache_n=srv.results_cache_n)
            self.check_failed_query(name, execs)
            return False, None
        getattr(self, 'o_' + name)(srv, args, kwargs, ret, execs)
        w.ops_ok += 1
        w.outcome('ok', value=short(ret), cache_n=srv.results_cache_n, n_exec=len(execs))
        return True, ret

    def poisoned(self):
        return self.malformed_fired

    def failed_execs(self, execs, method=None):
        return [e for e in execs if (method is None or e['method'] == method) and (not e['returned'] or e['ret'] is False)]

    def answers_of(self, execs, method):
        return [c for e in execs if e['method'] == method for c in CTX.calls[e['c0']:e['c1']]
                if c['kind'] in ANSWER_KINDS and c['exc'] is None]

    # blockcount
    def o_blockcount(self, srv, args, kw, ret, execs):
        self.check_blockcount_value(ret, execs, 'blockcount()', srv)

    # estimatefee
    def o_estimatefee(self, srv, args, kw, ret, execs):
        w = self.w
        blocks = args[0] if args else kw.get('blocks', 5)
        pr = kw.get('priority', '')
        if pr == 'low':
            blocks = 25
        elif pr == 'high':
            blocks = 2
        net = self.netobj
        sig = {'method': 'estimatefee'}

        def clamp(f):
            return min(max(f, net.fee_min), net.fee_max)
        fee_execs = [e for e in execs if e['method'] == 'estimatefee']
        if not fee_execs:
            # served from cache: must be the clamped copy of an earlier provider answer for this bucket
            cands = {clamp(f) for f in self.facts_fee.get(self.bucket(blocks), ()) if isinstance(f, int) and f}
            cands |= self.default_fee_cached
            if ret not in cands:
                w.violation('fabricated_fee', sig, 'cached fee %r for %d blocks is no stored provider answer %s' %
                            (ret, blocks, sorted(cands)))
            return
        e = fee_execs[-1]
        r = e['ret']
        if isinstance(r, int) and not isinstance(r, bool) and r:
            if ret != clamp(r):
                w.violation('fabricated_fee', sig, 'fee %r is not clamp(%r)' % (ret, r))
            return
        if not isinstance(r, (int, bool)) and r is not None:
            return      # malformed answer passed through arithmetic; anything goes
        # no usable provider answer (error limit hit -> False, or empty answer 0/None) but a fee was returned
        self.default_fee_cached.add(ret)
        w.violation('default_fee_instead_of_failure', sig,
                    'estimatefee returned %r although the provider execution gave %r' % (ret, r))

    # getbalance
    def o_getbalance(self, srv, args, kw, ret, execs):
        w = self.w
        sig = {'method': 'getbalance'}
        addrs = self._orig_addresslist
        bal_execs = [e for e in execs if e['method'] == 'getbalance']
        covered = [a for e in bal_execs for a in e['args'][0]]
        cached = [a for a in addrs if a not in covered]
        failed = [e for e in bal_execs if e['ret'] is False or not e['returned']]
        parts = [e['ret'] for e in bal_execs if e['returned'] and e['ret'] is not False]
        if any(not isinstance(p, int) or isinstance(p, bool) for p in parts):
            return
        if failed:
            w.violation('partial_balance', sig, 'getbalance returned %r although %d of %d chunk executions failed' %
                        (ret, len(failed), len(bal_execs)))
            return
        if cached:
            w.probe('getbalance_cache_branch')
            rest = ret - sum(parts) if isinstance(ret, int) else None
            if len(cached) == 1 and not self.lied and not self.poisoned():
                cands = self.true_bal.get(cached[0], set())
                if rest not in cands:
                    w.violation('fabricated_balance', dict(sig, cause='cached_address_balance'),
                                'cached balance %r of %s was never its balance in any provider view (%s)' %
                                (rest, cached[0], sorted(cands)))
            elif not isinstance(ret, int) or ret < sum(parts):
                w.violation('fabricated_balance', dict(sig, cause='cached_address_balance'),
                            'balance %r < sum of provider chunk answers %r' % (ret, parts))
            return
        if ret != sum(parts):
            w.violation('fabricated_balance', sig, 'balance %r != sum of provider chunk answers %r' % (ret, parts))

    # getutxos
    def o_getutxos(self, srv, args, kw, ret, execs):
        w = self.w
        sig = {'method': 'getutxos'}
        ue = [e for e in execs if e['method'] == 'getutxos']
        if not isinstance(ret, list):
            w.violation('fabricated_utxos', sig, 'getutxos returned %r' % short(ret))
        n_cache = srv.results_cache_n
        if ue:
            r = ue[-1]['ret']
            if not isinstance(r, list):
                return
            tail = ret[n_cache:]
            if len(tail) != len(r) or any(a is not b for a, b in zip(tail, r)):
                w.violation('fabricated_utxos', sig, 'provider part of the answer is not the provider answer')
        for u in ret[:n_cache]:
            facts = self.facts_out.get((u['txid'], u['output_n']), set())
            if not any(f[0] == u['value'] for f in facts) and not self.poisoned():
                w.violation('fabricated_utxos', sig, 'cached utxo %s:%d value %r never answered by a provider' %
                            (u['txid'], u['output_n'], u['value']))
            if False not in self.facts_spent.get((u['txid'], u['output_n']), set()) and not self.poisoned():
                w.violation('fabricated_utxos', dict(sig, cause='never_reported_unspent'),
                            'cached utxo %s:%d: no provider ever reported this output as unspent (recorded: %s)' %
                            (u['txid'][:16], u['output_n'], sorted(map(str, self.facts_spent.get((u['txid'], u['output_n']), [])))))
            if u['address'] != args[0]:
                w.violation('fabricated_utxos', sig, 'cached utxo for another address')
        # what getutxos records about the address is the summary of an answer: if the call changed the cached balance,
        # the new figure is the sum of the list it has just returned (it is served by getbalance later)
        if self._pre_addr and not self.poisoned() and all(isinstance(u, dict) and 'value' in u for u in ret):
            before, after = self._pre_addr[1], self.cached_address_row(srv, args[0])
            if after is not None and after != before and after[0] is not None and \
                    'unreadable' not in (after[0], (before or (None,))[0]):
                w.probe('getutxos_recorded_address_balance')
                total = sum(u['value'] for u in ret)
                if after[0] != total or (after[1] is not None and after[1] != len(ret)):
                    w.violation('stored_balance_not_the_answer', sig,
                                'getutxos(%s) returned %d utxos worth %d (cache part %d) but recorded balance %r / %r utxos' %
                                (args[0], len(ret), total, n_cache, after[0], after[1]))

    # gettransaction
    def tx_matches_fact(self, t, allow_spent_history=True):
        s = snap_tx(t)
        if 'unsnappable' in s:
            return False, 'unsnappable'
        for f in self.facts_tx.get(s['txid'], []):
            if strict_part(f) == strict_part(s):
                ok = True
                for n, sp in enumerate(s['spent']):
                    if sp not in self.facts_spent.get((s['txid'], s['outputs'][n][3]), set()):
                        ok = False
                if ok:
                    return True, ''
                return False, 'spent flags %s never recorded' % s['spent']
        return False, 'no provider answer with this content (have %d versions)' % len(self.facts_tx.get(s['txid'], []))

    def o_gettransaction(self, srv, args, kw, ret, execs):
        w = self.w
        sig = {'method': 'gettransaction'}
        txid = args[0]
        te = [e for e in execs if e['method'] == 'gettransaction']
        if ret is None and te and te[-1]['ret'] is None:
            return
        if not is_tx(ret):
            if te and ret is te[-1]['ret']:
                return
            w.violation('fabricated_tx', sig, 'gettransaction returned %r' % short(ret))
        if te:
            ans = [c for c in self.answers_of(te, 'gettransaction') if c['value'] is ret]
            if not ans:
                w.violation('fabricated_tx', sig, 'returned object is no provider answer')
            snap = ans[0].get('snap')
            now = snap_tx(ret)
            if snap and strict_part(snap) != strict_part(now):
                diff = [k for k in snap if k != 'spent' and snap[k] != now.get(k)]
                if diff == ['txid']:
                    w.violation('relabelled_txid', sig,
                                'provider answered transaction %s for request %s; returned under the requested id' %
                                (snap['txid'][:16], txid[:16]))
                else:
                    w.violation('fabricated_tx', sig, 'returned transaction differs from provider answer in %s' % diff)
        else:
            ok, why = self.tx_matches_fact(ret)
            if not ok and not self.poisoned():
                w.violation('cache_infidelity', sig, 'cached transaction %s: %s' % (txid[:16], why))
            self.check_cached_confirmations(ret, sig)
        if ret.txid != txid and not self.poisoned():
            w.violation('fabricated_tx', sig, 'asked %s got %s' % (txid[:16], ret.txid[:16]))

    # gettransactions
    def o_gettransactions(self, srv, args, kw, ret, execs):
        w = self.w
        sig = {'method': 'gettransactions'}
        if not isinstance(ret, list):
            w.violation('fabricated_txs', sig, 'gettransactions returned %r' % short(ret))
        te = [e for e in execs if e['method'] == 'gettransactions']
        n_cache = srv.results_cache_n
        if te:
            r = te[-1]['ret']
            if not isinstance(r, list):
                return
            tail = ret[n_cache:]
            if len(tail) != len(r) or any(a is not b for a, b in zip(tail, r)):
                w.violation('fabricated_txs', sig, 'provider part (%d txs) is not the provider answer (%d txs)' %
                            (len(tail), len(r)))
            ans = [c for c in self.answers_of(te, 'gettransactions') if c['value'] is r]
            if ans and ans[0].get('snap'):
                for t, s in zip(r, ans[0]['snap']):
                    if s and is_tx(t) and strict_part(snap_tx(t)) != strict_part(s):
                        w.violation('fabricated_txs', sig, 'transaction %s altered after the provider answered' %
                                    s['txid'][:16])
        else:
            n_cache = len(ret)
        address = args[0]
        for t in ret[:n_cache]:
            if not is_tx(t):
                w.violation('fabricated_txs', sig, 'cache part contains %r' % short(t))
            self.check_cached_confirmations(t, sig)
            s = snap_tx(t)
            found = False
            for f in self.facts_tx.get(s.get('txid'), []):
                if strict_part(f) == strict_part(s):
                    found = True
            if not found and not self.poisoned():
                w.violation('cache_infidelity', sig, 'cached transaction %s differs from every stored answer' %
                            str(s.get('txid'))[:16])
        if getattr(srv, 'complete', False) and all(is_tx(t) for t in ret) and \
                len({t.txid for t in ret}) == len(ret):      # (a list with repeats is judged below)
            # a complete history: the service derives the spent state of the address's own outputs from the inputs of the
            # listed transactions (transaction_update_spents) and stores that.  Recomputed here from the listed inputs;
            # what agrees becomes a stored fact, anything else was made up.
            spends = {(i.prev_txid.hex(), i.output_n_int) for t in ret for i in t.inputs}
            for t in ret:
                for o in t.outputs:
                    if o.address != address:
                        continue
                    derived = (t.txid, o.output_n) in spends
                    if bool(o.spent) != derived and not self.poisoned():
                        w.violation('fabricated_spent_flag', sig,
                                    'complete history of %s: output %s:%d marked spent=%r, the listed inputs say %r' %
                                    (address, t.txid[:16], o.output_n, o.spent, derived))
                    self.facts_spent.setdefault((t.txid, o.output_n), set()).add(derived)
                    w.probe('spent_flag_derived_from_complete_history')
        if te and isinstance(te[-1]['ret'], list) and len(te[-1]['args']) > 2 and not self.poisoned():
            # a full provider page means there may be more: the cache must not then record the address as covered
            # beyond the block of the last transaction it was given
            page, asked = te[-1]['ret'], te[-1]['args'][2]
            heights = [t.block_height for t in page if is_tx(t) and t.block_height]
            if isinstance(asked, int) and asked > 0 and len(page) >= asked and heights:
                row = self.cached_address_cover(srv, address)
                before = self._pre_cover[1] if self._pre_cover else None
                before = before[0] if before and before[0] is not None else -1
                w.probe('full_provider_page')
                # (a claim that was there before the call may stand; this call must not raise it beyond what it was given)
                if row is not None and row[0] is not None and row[0] > max(heights) and row[0] > before:
                    w.violation('cache_claims_more_than_it_was_given', sig,
                                'gettransactions(%s): the provider page was full (%d of %d asked, last block %d) but the '
                                'cache records the address as complete up to block %d' %
                                (address, len(page), asked, max(heights), row[0]))
        ids = [t.txid for t in ret if is_tx(t)]
        self.check_cache_part_after(srv, address, kw.get('after_txid'), ids[:n_cache])
        if len(set(ids)) != len(ids) and not self.poisoned() and n_cache and te and len(te[-1]['args']) > 1 and \
                te[-1]['args'][1] == ids[n_cache - 1]:
            # The service asked the provider to continue after the last cached transaction, as it should.  A provider
            # that does not know that transaction (lagging view) or stops paging on its own terms (the real clients)
            # answers with transactions at or before it: the overlap is in the provider's answer, not the service's doing.
            pos = {}
            for c in self.chain.txs.values():
                pos[c.txid] = (c.height if c.height is not None else 10 ** 9, c.index or 0, c.arrival)
            last_cached = ids[n_cache - 1]
            if any(i in pos and last_cached in pos and pos[i] <= pos[last_cached] for i in ids[n_cache:]):
                w.probe('provider_ignored_after_txid')
                ids = []
        if len(set(ids)) != len(ids) and not self.poisoned():
            dups = {i for i in ids if ids.count(i) > 1}
            heights = [t.block_height for t in ret if is_tx(t)]
            # known mechanism: the cache orders transactions of one block by the position they had in whatever list
            # they were first answered in, so a same-block neighbour is asked for again after the "last" cached one
            same_block = all(heights.count(t.block_height) > ids.count(t.txid) for t in ret
                             if is_tx(t) and t.txid in dups and t.block_height)
            w.violation('duplicate_transactions', dict(sig, cause='same_block_cache_order' if same_block else 'other'),
                        'history of %s lists a transaction twice: %s (heights %s)' %
                        (address, [i[:8] for i in ids], heights))

    def check_cached_confirmations(self, t, sig):
        """A transaction served from the cache carries a confirmation count the cache computes itself, from a block
        count: that block count has to be one a provider answered at some time."""
        if self.poisoned() or not t.block_height:
            return
        c = t.confirmations
        self.w.probe('cached_confirmations_checked')
        # (with a block count older than the transaction's block the figure may be 0 or below: still arithmetic on an
        # answer some provider gave)
        possible = {bc - t.block_height + 1 for bc in self.facts_bc if isinstance(bc, int) and not isinstance(bc, bool)}
        # ... or the count a provider gave with the transaction itself (stored with it)
        possible |= {f.get('confirmations') for f in self.facts_tx.get(t.txid, [])}
        if isinstance(c, bool) or not isinstance(c, int) or c not in possible:
            self.w.violation('fabricated_confirmations', sig,
                             'cached transaction %s in block %s served with confirmations=%r' %
                             (t.txid[:16], t.block_height, c))

    def check_cache_part_after(self, srv, address, after_txid, part):
        """gettransactions(address, after_txid=X) with a cache part: every provider told the truth about one chain, so
        the stored answers are prefixes of the address's confirmed history; the part served from the cache must be
        the run of that history that directly follows X."""
        w = self.w
        if not after_txid or not part or self.lied or self.poisoned() or not self._pre_model:
            return
        _, model, cached = self._pre_model
        from ref import codec as rcodec
        hist = [c for c in self.chain.history_of(rcodec.address_to_script(address, self.network), View())
                if c.height is not None]
        true = [c.txid for c in hist]
        if after_txid not in true:
            return
        w.probe('cache_part_after_txid_checked')
        i = true.index(after_txid)
        want = true[i + 1:i + 1 + len(part)]
        if part == want:
            return
        hmap = {c.txid: c.height for c in hist}
        if model is not None and part != model:
            cause = 'not_the_cache_order'
        elif any(x not in hmap for x in part):
            cause = 'other'
        else:
            upto = max(true.index(x) for x in part)
            skipped = [x for x in true[i + 1:upto + 1] if x not in part]
            heights = {hmap[x] for x in part} | {hmap[after_txid]}
            if any(x not in cached for x in skipped):
                cause = 'partial_cache_taken_for_prefix'
            elif all(hmap[x] in heights for x in skipped) and \
                    all(hmap[a] <= hmap[b] for a, b in zip(part, part[1:])) and len(set(part)) == len(part):
                cause = 'same_block_cache_order'
            else:
                cause = 'other'
        w.violation('cache_infidelity', {'method': 'gettransactions', 'stage': 'cache_part_after_txid', 'cause': cause},
                    'after_txid=%s: the cache served %s, the stored history continues %s' %
                    (after_txid[:8], [x[:8] for x in part], [x[:8] for x in want]))

    def cached_address_row(self, srv, address):
        try:
            con = sqlite3.connect('file:%s?mode=ro' % srv.cache_uri, uri=True, timeout=0.05)
            try:
                return con.execute('select balance, n_utxos from cache_address where address = ?', (address,)).fetchone()
            finally:
                con.close()
        except Exception:
            return ('unreadable',)

    def cached_address_cover(self, srv, address):
        try:
            con = sqlite3.connect('file:%s?mode=ro' % srv.cache_uri, uri=True, timeout=0.05)
            try:
                return con.execute('select last_block from cache_address where address = ?', (address,)).fetchone()
            finally:
                con.close()
        except Exception:
            return None

    def cached_ids_of(self, srv, address):
        try:
            con = sqlite3.connect('file:%s?mode=ro' % srv.cache_uri, uri=True, timeout=0.05)
            try:
                return {r[0].hex() for r in con.execute('select txid from cache_transactions_node where address = ?',
                                                        (address,))}
            finally:
                con.close()
        except Exception:
            return set()

    def cached_block_rows(self, srv, height):
        """(txid, index) of the cache's transaction rows of one block, None when the cache cannot be read."""
        try:
            con = sqlite3.connect('file:%s?mode=ro' % srv.cache_uri, uri=True, timeout=0.05)
            try:
                return [(r[0].hex(), r[1]) for r in
                        con.execute('select txid, "index" from cache_transactions where block_height = ?', (height,))]
            finally:
                con.close()
        except Exception:
            return None

    def o_getrawtransaction(self, srv, args, kw, ret, execs):
        w = self.w
        sig = {'method': 'getrawtransaction'}
        te = [e for e in execs if e['method'] == 'getrawtransaction']
        if te:
            if ret is not te[-1]['ret']:
                w.violation('fabricated_raw', sig, 'returned value is not the provider answer')
            return
        stored = {f.get('raw') for f in self.facts_tx.get(args[0], [])}
        if ret not in stored and not self.poisoned():
            w.violation('cache_infidelity', sig, 'cached raw transaction %s is the serialization of no stored answer' %
                        args[0][:16])

    def o_sendrawtransaction(self, srv, args, kw, ret, execs):
        te = [e for e in execs if e['method'] == 'sendrawtransaction']
        if not te or ret is not te[-1]['ret']:
            self.w.violation('fabricated_send', {'method': 'sendrawtransaction'}, 'result is not the provider answer')

    def o_mempool(self, srv, args, kw, ret, execs):
        te = [e for e in execs if e['method'] == 'mempool']
        if not te or ret is not te[-1]['ret']:
            self.w.violation('fabricated_mempool', {'method': 'mempool'}, 'result is not the provider answer')

    def o_getinfo(self, srv, args, kw, ret, execs):
        te = [e for e in execs if e['method'] == 'getinfo']
        if not te or ret is not te[-1]['ret']:
            self.w.violation('fabricated_info', {'method': 'getinfo'}, 'result is not the provider answer')

    def o_isspent(self, srv, args, kw, ret, execs):
        w = self.w
        sig = {'method': 'isspent'}
        te = [e for e in execs if e['method'] == 'isspent']
        if te:
            r = te[-1]['ret']
            if r is False and not self.answers_of(te, 'isspent'):
                w.violation('failure_reported_as_unspent', sig,
                            'no provider answered isspent (execution failed) but the query returned %r' % ret)
                return
            if ret != bool(r):
                w.violation('fabricated_spent', sig, 'isspent %r but provider answered %r' % (ret, r))
            return
        if ret not in self.facts_spent.get((args[0], args[1]), set()) and not self.poisoned():
            w.violation('cache_infidelity', sig, 'cached spent flag %r for %s:%d never stored (%s)' %
                        (ret, args[0][:16], args[1], self.facts_spent.get((args[0], args[1]))))

    def o_getblock(self, srv, args, kw, ret, execs):
        w = self.w
        sig = {'method': 'getblock'}
        be = [e for e in execs if e['method'] == 'getblock']
        blockid = args[0]
        parse = kw.get('parse_transactions', True)
        page = kw.get('page', 1)
        limit = kw.get('limit')
        if limit is None:
            limit = 25 if parse else 99999
        b = self.chain.block_at(blockid) if isinstance(blockid, int) else self.chain.by_hash.get(blockid)
        if be:
            d = be[-1]['ret']
            if not isinstance(d, dict) or 'txs' not in d:
                return
            hdr_ok = (ret.block_hash.hex() == d['block_hash'] and ret.height == d['height'] and
                      ret.merkle_root.hex() == d['merkle_root'] and ret.prev_block.hex() == d['prev_block'] and
                      ret.time == d['time'] and ret.tx_count == d['tx_count'])
            if not hdr_ok:
                w.violation('fabricated_block', sig, 'block header fields differ from the provider answer')
            if len(ret.transactions) != len(d['txs']) or any(a is not b_ for a, b_ in zip(ret.transactions, d['txs'])):
                w.violation('fabricated_block', sig, 'block transactions are not the provider answer')
            return
        # served from cache: the stored answers are the chain's block (providers answer getblock honestly or not at all)
        if self.poisoned():
            return
        if b is None:
            w.violation('cache_infidelity', sig, 'cache served a block the chain does not have')
        if ret.block_hash.hex() != b.hash or ret.height != b.height or ret.merkle_root.hex() != b.merkle or \
                ret.prev_block.hex() != b.prev or ret.time != b.time or ret.tx_count != len(b.txids):
            w.violation('cache_infidelity', sig, 'cached block %d header differs from stored answer' % b.height)
        want = b.txids[(page - 1) * limit: page * limit]
        got = [t.txid if is_tx(t) else t for t in ret.transactions]
        if got != want:
            in_block = all(g in b.txids for g in got) and len(set(got)) == len(got)
            if in_block:
                # the recorded defect is about cache rows whose index is not the position in the block (and a missing
                # ORDER BY): when every cached row of this block carries its block position, only the order of the
                # page's transactions can be explained by it
                rows = self.cached_block_rows(srv, b.height)
                if rows is not None and all(b.txids.index(t) == i for t, i in rows if t in b.txids) and \
                        all(t in b.txids for t, i in rows) and set(got) != set(want):
                    in_block = False
                    sig = dict(sig, indexes='right')
                    w.probe('cached_block_page_wrong_with_right_indexes')
            w.violation('cache_infidelity', dict(sig, cause='cache_index' if in_block else 'other'),
                        'cached block %d page %d limit %d lists %s, stored %s' %
                        (b.height, page, limit, [g[:8] for g in got], [x[:8] for x in want]))
        for t in ret.transactions:
            if is_tx(t):
                ok, why = self.tx_matches_fact(t)
                if not ok:
                    w.violation('cache_infidelity', sig, 'cached block transaction %s: %s' % (t.txid[:16], why))

    def o_getinputvalues(self, srv, args, kw, ret, execs):
        w = self.w
        for i in ret.inputs:
            if i.prev_txid == b'\0' * 32:
                continue
            facts = self.facts_out.get((i.prev_txid.hex(), i.output_n_int), set())
            if not any(f[0] == i.value for f in facts) and not self.poisoned():
                w.violation('fabricated_input_value', {'method': 'getinputvalues'},
                            'input %s:%d value %r never answered' % (i.prev_txid.hex()[:16], i.output_n_int, i.value))

    def o_getcacheaddressinfo(self, srv, args, kw, ret, execs):
        if not isinstance(ret, dict) or ret.get('address') != args[0]:
            self.w.violation('fabricated_addressinfo', {'method': 'getcacheaddressinfo'}, 'wrong address info')

    # -- cache fidelity: replay with every provider down ---------------------------------------------------
    def fidelity_replay(self, srv, name, args, kwargs, first):
        w = self.w
        prev_mode, self.mode = self.mode, 'down'
        try:
            w.op('fidelity_replay', method=name)
            ok, second = self.run_query(srv, name, args, kwargs, replay=True)
        finally:
            self.mode = prev_mode
        if not ok:
            w.probe('fidelity_replay_failed_cleanly')
            return
        w.probe('fidelity_replay_served')
        sig = {'method': name, 'stage': 'replay_all_down'}
        if self.poisoned():
            return
        if name == 'gettransactions':
            a = [snap_tx(t) for t in first]
            b = [snap_tx(t) for t in second]
            ids_a = [x['txid'] for x in a]
            ids_b = [x['txid'] for x in b]
            if self.lied:
                # providers with different views were composed; only element-wise fidelity is meaningful
                ids_a = ids_b
            if len(set(ids_a)) != len(ids_a):
                # the first answer listed a transaction twice (reported then, C20-cache-order-dup); what was stored is
                # each transaction once
                seen_a = set()
                ids_a = [x for x in ids_a if not (x in seen_a or seen_a.add(x))]
            # The known same-block defects all come from one thing: the cache lists an address's transactions by
            # (block_height, cache index).  A deviation is attributed to them only if the served list is what that
            # ordering gives over the rows the cache holds; anything else is a different violation.
            model = self.cache_model_history(srv, args[0], kwargs.get('after_txid'),
                                             kwargs.get('limit', self.S.MAX_TRANSACTIONS))
            by_order = 'same_block_cache_order' if model is None or model == ids_b else 'not_the_cache_order'
            if model is not None:
                w.probe('cache_order_model_decided')
            if ids_b != ids_a[:len(ids_b)]:
                reorder = self.same_block_reorder(args[0], ids_b) or self.permuted_in_block(args[0], ids_b, ids_a) or \
                    self.missing_share_block(ids_a, ids_b, kwargs.get('after_txid'))
                w.violation('cache_infidelity', dict(sig, cause=by_order if reorder else 'other'),
                            'replayed history %s is no prefix of the stored answer %s' %
                            ([x[:8] for x in ids_b], [x[:8] for x in ids_a]))
            else:
                for y in b:
                    if not any(strict_part(f) == strict_part(y) for f in self.facts_tx.get(y['txid'], [])):
                        w.violation('cache_infidelity', dict(sig, cause='content'),
                                    'replayed transaction %s equals no stored provider answer' % y['txid'][:16])
            first_ids = [x['txid'] for x in a]
            dup_first = len(set(first_ids)) != len(first_ids)     # the stored answer itself already showed a known defect
            believed = srv._blockcount if isinstance(srv._blockcount, int) else 0
            for t in first[len(b):]:
                # a transaction in a block beyond the (cached, possibly stale) block count the service works with is
                # outside what the cache claims to cover
                if t.block_height and t.confirmations and not self.lied and not dup_first and \
                        t.block_height <= believed:
                    cause = 'after_txid_not_in_cache' if kwargs.get('after_txid') and not b else 'other'
                    if kwargs.get('after_txid') in self.chain.txs and \
                            self.chain.txs[kwargs['after_txid']].height == t.block_height:
                        cause = by_order    # cut off by the cache's within-block order
                    elif b and self.missing_share_block([x['txid'] for x in a], [x['txid'] for x in b],
                                                        kwargs.get('after_txid')):
                        cause = by_order
                    w.violation('cache_infidelity', dict(sig, cause=cause),
                                'replay from cache lost confirmed transaction %s although the call succeeded' %
                                t.txid[:16])
                    break
        elif name == 'gettransaction':
            if strict_part(snap_tx(first)) != strict_part(snap_tx(second)):
                w.violation('cache_infidelity', sig, 'replayed transaction differs from the stored answer')
        elif name == 'getrawtransaction':
            if first != second:
                w.violation('cache_infidelity', sig, 'replayed raw transaction differs')
        elif name == 'getblock':
            a = [t.txid if is_tx(t) else t for t in first.transactions]
            b = [t.txid if is_tx(t) else t for t in second.transactions]
            if a != b or first.block_hash != second.block_hash:
                same = first.block_hash == second.block_hash and len(set(b)) == len(b)
                w.violation('cache_infidelity', dict(sig, cause='cache_index' if same else 'other'),
                            'replayed block differs: %s vs %s' % ([x[:8] for x in b], [x[:8] for x in a]))

    def cache_model_history(self, srv, address, after_txid, limit):
        """What "this address's cached transactions by (block_height, cache index), after `after_txid`, up to the
        address's last_block" gives over the rows in the cache file now; None when that is not decidable (ties or
        NULLs in the ordering, unreadable file).  Used only to tell the known ordering defects from anything else."""
        try:
            con = sqlite3.connect('file:%s?mode=ro' % srv.cache_uri, uri=True, timeout=0.05)
        except Exception:
            return None
        try:
            rows = con.execute('select t.txid, t.block_height, t."index" from cache_transactions t join '
                               'cache_transactions_node n on n.txid = t.txid where n.address = ?', (address,)).fetchall()
            addr = con.execute('select last_block from cache_address where address = ?', (address,)).fetchone()
            after = None
            if after_txid:
                after = con.execute('select block_height from cache_transactions where txid = ?',
                                    (bytes.fromhex(after_txid),)).fetchone()
        except Exception:
            return None
        finally:
            con.close()
        if addr is None:
            return []
        seen, uniq = set(), []
        for r in rows:
            if r[0] not in seen:
                seen.add(r[0])
                uniq.append(r)
        if after_txid:
            if not (after and addr[0] and after[0]):
                return []
            uniq = [r for r in uniq if r[1] is not None and after[0] <= r[1] <= addr[0]]
        if any(r[1] is None or r[2] is None for r in uniq):
            return None
        keys = [(r[1], r[2]) for r in uniq]
        if len(set(keys)) != len(keys):
            return None
        uniq.sort(key=lambda r: (r[1], r[2]))
        ids = [r[0].hex() for r in uniq]
        if after_txid:
            if after_txid in ids:
                ids = ids[ids.index(after_txid) + 1:]
        return ids[:limit]

    def permuted_in_block(self, address, ids_b, ids_a):
        from ref import codec as rcodec
        hist = self.chain.history_of(rcodec.address_to_script(address, self.network), View())
        hmap = {c.txid: (c.height if c.height is not None else 10 ** 9) for c in hist}
        if sorted(ids_b) != sorted(ids_a[:len(ids_b)]) or any(i not in hmap for i in ids_b):
            return False
        hs = [hmap[i] for i in ids_b]
        return all(a <= b for a, b in zip(hs, hs[1:]))

    def missing_share_block(self, ids_a, ids_b, after_txid):
        """Every transaction the cache dropped sits in the same block as the after_txid transaction or as a
        transaction it did serve: the cache's within-block order (list position, not block index) cut it off."""
        tx = self.chain.txs
        if ids_b and ids_b[-1] in ids_a:
            ids_a = ids_a[:ids_a.index(ids_b[-1]) + 1]     # what follows the last served transaction is merely not served
        missing = [i for i in ids_a if i not in ids_b]
        if not missing or any(i not in tx for i in ids_a + ids_b) or set(ids_b) - set(ids_a):
            return False
        heights = {tx[i].height for i in ids_b}
        if after_txid and after_txid in tx:
            heights.add(tx[after_txid].height)
        return all(tx[i].height in heights and tx[i].height is not None for i in missing)

    def same_block_reorder(self, address, ids):
        """True when `ids` is the address's true history up to a cut, except for the order (and, at the cut, the
        choice) of transactions inside one block - the signature of the cache's block-index semantics."""
        from ref import codec as rcodec
        hist = self.chain.history_of(rcodec.address_to_script(address, self.network), View())
        hmap = {c.txid: (c.height if c.height is not None else 10 ** 9) for c in hist}
        if len(set(ids)) != len(ids) or any(i not in hmap for i in ids) or not ids:
            return False
        hs = [hmap[i] for i in ids]
        if any(a > b for a, b in zip(hs, hs[1:])):
            return False
        top = max(hs)
        for h in set(hs):
            true_h = {t for t, th in hmap.items() if th == h}
            got_h = {i for i in ids if hmap[i] == h}
            if h < top and got_h != true_h:
                return False
        # nothing older than the first listed transaction may be missing
        if any(th < min(hs) for th in hmap.values()):
            return False
        return True

    # -- operations ------------------------------------------------------------------------------------
    def addresses(self):
        return [k.address for k in self.keys] + [self.unused.address]

    def some_txid(self):
        ids = sorted(self.chain.txs, key=lambda t: self.chain.txs[t].arrival)
        return ids[self.ch.index('txid', len(ids))]

    def track_balances(self):
        from ref import codec as rcodec
        for a in self.addresses():
            spk = rcodec.address_to_script(a, self.network)
            st = self.true_bal.setdefault(a, set())
            for lag in (0, 1, 2, 3):
                for mp in (True, False):
                    st.add(self.chain.balance_of(spk, View(lag, mp)))

    def step(self):
        ch, w = self.ch, self.w
        self.track_balances()
        kind = ch.weighted('op', [
            ('gettransactions', 10), ('blockcount', 5), ('estimatefee', 6), ('getbalance', 6), ('getutxos', 8),
            ('gettransaction', 8), ('getrawtransaction', 3), ('getblock', 6), ('isspent', 3), ('mempool', 2),
            ('getinfo', 1), ('getinputvalues', 2), ('sendrawtransaction', 3), ('getcacheaddressinfo', 1),
            ('mine', 4), ('advance', 6), ('new_service', 3), ('wipe_cache', 2), ('chain_spend', 4)])
        if kind == 'mine':
            w.op('mine')
            b = self.chain.mine(max_txs=ch.pick('mine_k', [None, None, 1, 0]))
            w.outcome('block', height=b.height, n=len(b.txids))
            return
        if kind == 'advance':
            dt = ch.pick('dt', [1, 4, 61, 601, 86400, 0.5])
            w.op('advance', dt=dt)
            w.clock.advance(dt)
            w.faults['clock_jump'] = w.faults.get('clock_jump', 0) + 1
            return
        if kind == 'chain_spend':
            w.op('chain_spend')
            self.background_spend()
            return
        if kind == 'new_service':
            self.new_service(ch.index('slot', 2 if self.two_services else 1))
            return
        if kind == 'wipe_cache':
            self.wipe_cache()
            return
        srv = self.service()
        if srv is None:
            return
        args, kwargs = (), {}
        name = kind
        if kind == 'estimatefee':
            if ch.coin('byprio', 0.3):
                kwargs = {'priority': ch.pick('prio_s', ['low', 'high', 'medium'])}
            else:
                args = (ch.pick('blocks', [5, 1, 2, 10, 25, 3]),)
        elif kind == 'getbalance':
            addrs = self.addresses()
            n = ch.int('nbal', 1, min(12, len(addrs)))
            b0 = ch.index('bal0', len(addrs))
            sel = [addrs[(b0 + i) % len(addrs)] for i in range(n)]
            self._orig_addresslist = list(sel)
            args = (list(sel),)
            kwargs = {'addresses_per_request': ch.pick('apr', [5, 1, 2, 3])}
        elif kind in ('getutxos', 'gettransactions'):
            addrs = self.addresses()
            a = addrs[ch.index('addr', len(addrs))]
            after = ''
            if ch.coin('after', 0.25):
                from ref import codec as rcodec
                hist = self.chain.history_of(rcodec.address_to_script(a, self.network), View())
                if hist:
                    after = hist[ch.index('after_i', len(hist))].txid
            args = (a,)
            kwargs = {'after_txid': after, 'limit': ch.pick('limit', [20, 2, 5, 3, 50])}
        elif kind in ('gettransaction', 'getrawtransaction'):
            args = (self.some_txid(),)
        elif kind == 'getblock':
            b = self.chain.blocks[ch.index('blk', len(self.chain.blocks))]
            args = (b.height if ch.coin('byheight', 0.7) else b.hash,)
            kwargs = {'parse_transactions': ch.coin('parse', 0.7), 'page': ch.pick('page', [1, 1, 2, 3]),
                      'limit': ch.pick('blimit', [None, 2, 5, 1, 10])}
        elif kind == 'isspent':
            txid = self.some_txid()
            args = (txid, ch.index('outn', len(self.chain.txs[txid].tx.vout)))
        elif kind == 'mempool':
            args = (self.some_txid() if ch.coin('mp_tx', 0.6) else '',)
        elif kind == 'getinputvalues':
            from bitcoinlib.transactions import Transaction
            c = self.chain.txs[self.some_txid()]
            if c.coinbase:
                return
            t = Transaction.parse_hex(c.raw.hex(), strict=False, network=self.network)
            args = (t,)
        elif kind == 'sendrawtransaction':
            raw = self.make_raw_spend()
            if raw is None:
                return
            args = (raw,)
        elif kind == 'getcacheaddressinfo':
            addrs = self.addresses()
            args = (addrs[ch.index('addr', len(addrs))],)
        ok, val = self.run_query(srv, name, args, kwargs)
        if ok and name in ('gettransactions', 'gettransaction', 'getblock', 'getrawtransaction') and \
                self.min_providers <= 1 and ch.coin('replay', 0.35):
            self.fidelity_replay(srv, name, args, kwargs, val)

    def make_raw_spend(self):
        """A valid signed raw transaction (reference code) that the service may broadcast."""
        ch, chain = self.ch, self.chain
        mine = sorted((op, v) for op, v in chain.utxo.items() if v[0] in self.by_script and v[1] > 3000)
        if not mine:
            return None
        op, (spk, val) = mine[ch.index('raw_utxo', len(mine))]
        from ref.txcodec import RefTx, RefIn, RefOut
        dest = self.keys[ch.index('raw_dest', len(self.keys))]
        tx = RefTx(version=2, vin=[RefIn(prev_txid=bytes.fromhex(op[0])[::-1], vout=op[1], script_sig=b'',
                                         sequence=0xffffffff, witness=[])],
                   vout=[RefOut(value=val - 700, script_pubkey=dest.script)], locktime=0, segwit=True)
        self.by_script[spk].sign_input(tx, 0, val)
        return tx.serialize().hex()

    def wipe_cache(self):
        ch, w = self.ch, self.w
        what = ch.pick('wipe', ['transactions', 'addresses', 'vars', 'blocks', 'half_nodes'])
        w.op('wipe_cache', what=what)
        w.faults['cache_partial'] = w.faults.get('cache_partial', 0) + 1
        # the partially filled cache is what the *next* Service objects find: close the current ones first
        for srv in self.services:
            if srv is not None and srv.cache and srv.cache.session:
                srv.cache.session.close()
        self.services = []
        for i in (0, 1):
            p = self.cache_path(i)
            if not os.path.exists(p):
                continue
            con = sqlite3.connect(p)
            try:
                if what == 'transactions':
                    con.execute('delete from cache_transactions_node')
                    con.execute('delete from cache_transactions')
                elif what == 'addresses':
                    con.execute('delete from cache_address')
                elif what == 'vars':
                    con.execute('delete from cache_variables')
                elif what == 'blocks':
                    con.execute('delete from cache_blocks')
                else:
                    # remove whole transactions (with their nodes) for every second cached transaction
                    ids = [r[0] for r in con.execute('select txid from cache_transactions order by txid')]
                    for t in ids[::2]:
                        con.execute('delete from cache_transactions_node where txid=?', (t,))
                        con.execute('delete from cache_transactions where txid=?', (t,))
                con.commit()
            finally:
                con.close()

    # -- bounded liveness ------------------------------------------------------------------------------
    def no_progress(self, method, message):
        if self.poisoned():
            # a malformed answer was accepted earlier (recorded finding): the cache may hold a relabelled transaction
            self.w.probe('liveness_failure_in_poisoned_run')
            return
        self.w.violation('no_progress_after_faults', {'method': method}, message)

    def liveness(self):
        """Faults stop: every provider honest and current, TTLs expired, a fresh block.  Every method must answer on
        its first call, with the usual no-fabrication oracles; blockcount must be the tip."""
        w, ch = self.w, self.ch
        self.mode = 'calm'
        for p in range(self.k):
            CTX.views[p] = View(0, True)
        CTX.missing = {}
        self.chain.mine()
        w.clock.advance(700)
        w.op('liveness_phase', tip=self.chain.tip)
        srv = self.new_service(0)
        if srv is None:
            self.no_progress('constructor', 'Service construction failed with every provider healthy')
        ok, v = self.run_query(srv, 'blockcount', (), {})
        if not ok or v != self.chain.tip:
            self.no_progress('blockcount', 'blockcount() = %r with all providers healthy at tip %d' % (v, self.chain.tip))
        ok, v = self.run_query(srv, 'estimatefee', (ch.pick('blocks', [5, 1, 25]),), {})
        if not ok:
            self.no_progress('estimatefee', 'estimatefee failed')
        for a in self.addresses()[:4]:
            ok, v = self.run_query(srv, 'gettransactions', (a,), {'limit': 200})
            if not ok:
                self.no_progress('gettransactions', 'gettransactions(%s) failed with every provider healthy: %r' % (a, v))
            elif not self.lied and self.min_providers <= 1:
                from ref import codec as rcodec
                hist = self.chain.history_of(rcodec.address_to_script(a, self.network), View())
                want = [c.txid for c in hist]
                got = [t.txid for t in v]
                if got != want and len(set(got)) == len(got):
                    hmap = {c.txid: c.height for c in hist}
                    if sorted(got) == sorted(want):
                        pos = {x: i for i, x in enumerate(want)}
                        only_within_block = all(hmap[a_] <= hmap[b_] for a_, b_ in zip(got, got[1:]))
                        cause = 'same_block_cache_order' if only_within_block else 'other'
                        klass = 'wrong_order_history'
                    else:
                        missing = [x for x in want if x not in got]
                        n_cache = srv.results_cache_n
                        cached_h = [t.block_height for t in v[:n_cache]]
                        # known mechanism: transactions cached through *other* addresses' queries are taken for a
                        # complete prefix of this address's history once an address row exists
                        partial_prefix = bool(n_cache) and set(got) <= set(want) and \
                            all(hmap[x] <= max(cached_h) for x in missing)
                        cause = 'partial_cache_taken_for_prefix' if partial_prefix else 'other'
                        klass = 'incomplete_history'
                        if len(set(got)) != len(got):
                            klass, cause = 'duplicate_transactions', 'liveness'
                    w.violation(klass, {'method': 'gettransactions', 'cause': cause},
                                'no provider ever lied, all healthy: history of %s: got %s want %s (cache part %d)' %
                                (a, [g[:8] for g in got], [x[:8] for x in want], srv.results_cache_n))
            ok, v = self.run_query(srv, 'getutxos', (a,), {'limit': 200})
            if not ok:
                self.no_progress('getutxos', 'getutxos failed: %r' % (v,))
        txid = self.some_txid()
        ok, v = self.run_query(srv, 'gettransaction', (txid,), {})
        if not ok:
            self.no_progress('gettransaction', 'gettransaction failed: %r' % (v,))
        b = self.chain.blocks[-1]
        ok, v = self.run_query(srv, 'getblock', (b.height,), {'limit': 50})
        if not ok:
            self.no_progress('getblock', 'getblock failed: %r' % (v,))

    # -- exhaustively enumerated slice ------------------------------------------------------------------
    def exhaustive_slice(self):
        """All assignments of {ok, raise, false, empty} to each of k providers x all k! strict priority orders for one
        drawn method, each on a fresh Service over a copy of the prepared cache file."""
        w, ch, S = self.w, self.ch, self.S
        k = self.k
        if k > (4 if self.tier == 'thorough' else 3):
            return
        method = ch.pick('slice_method', ['gettransactions', 'getutxos', 'gettransaction', 'estimatefee',
                                         'blockcount', 'getbalance', 'getblock', 'getrawtransaction', 'isspent'])
        cache_state = ch.pick('slice_cache', ['warm', 'cold'])
        outcomes = ['ok', 'raise', 'false', 'empty']
        self.mode = 'calm'
        w.op('exhaustive_slice', method=method, k=k, cache=cache_state, max_errors=self.max_errors,
             max_providers=self.max_providers)
        src = self.cache_path(0)
        for srv in self.services:
            if srv is not None and srv.cache and srv.cache.session:
                srv.cache.session.close()
        a = self.addresses()[ch.index('slice_addr', len(self.addresses()))]
        txid = self.some_txid()
        argmap = {
            'gettransactions': ((a,), {'limit': 5}), 'getutxos': ((a,), {}), 'gettransaction': ((txid,), {}),
            'estimatefee': ((3,), {}), 'blockcount': ((), {}), 'getblock': ((self.chain.blocks[1].height,), {'limit': 3}),
            'getrawtransaction': ((txid,), {}), 'isspent': ((txid, 0), {}),
        }
        n = 0
        saved_missing = CTX.missing
        CTX.missing = {}
        slice_path = os.path.join(self.w.scratch, 'slice.sqlite')
        try:
            for order in itertools.permutations(range(k)):
                self.write_providers([(p, 10 * (k - order.index(p))) for p in range(k)])
                for assign in itertools.product(outcomes, repeat=k):
                    if os.path.exists(slice_path):
                        os.remove(slice_path)
                    if cache_state == 'warm' and os.path.exists(src):
                        shutil.copyfile(src, slice_path)
                    self.assign = None
                    self.assign_method = method
                    e0 = len(EXECS)
                    if method == 'blockcount':
                        self.assign = dict(enumerate(assign))
                    w.clock.advance(700)     # past every TTL so the cache cannot answer blockcount / fee
                    try:
                        srv = S.Service(network=self.network, min_providers=1, max_providers=self.max_providers,
                                        cache_uri=slice_path, ignore_priority=False, max_errors=self.max_errors)
                    except StopRun:
                        raise
                    except Exception as e:
                        self.check_execs(EXECS[e0:])
                        self.check_failed_query('blockcount', EXECS[e0:], e)
                        n += 1
                        continue
                    finally:
                        pass
                    if method == 'blockcount':
                        self.check_execs(EXECS[e0:])
                        self.check_blockcount_value(srv._blockcount, EXECS[e0:], 'slice')
                    else:
                        self.assign = dict(enumerate(assign))
                        if method == 'getbalance':
                            self._orig_addresslist = self.addresses()[:4]
                            args, kwargs = (list(self._orig_addresslist),), {'addresses_per_request': 2}
                        else:
                            args, kwargs = argmap[method]
                        self.run_query(srv, method, args, kwargs, replay=True)
                    self.assign = None
                    srv.cache.session.close()
                    n += 1
        finally:
            self.assign = None
            CTX.missing = saved_missing
        w.info.setdefault('exhaustive_slices', []).append(
            {'method': method, 'k': k, 'cache': cache_state, 'max_errors': self.max_errors,
             'max_providers': self.max_providers, 'executions': n, 'exhaustive': True,
             'space': '%d^%d outcome assignments x %d! priority orders' % (len(outcomes), k, k)})
        w.info['slice_executions'] = w.info.get('slice_executions', 0) + n
        w.probe('exhaustive_slice_done')


def short(x):
    if is_tx(x):
        return 'Tx(%s)' % x.txid[:12]
    if isinstance(x, list):
        return '[%s]' % ', '.join(short(i) for i in x[:6]) + ('+%d' % (len(x) - 6) if len(x) > 6 else '')
    if isinstance(x, dict):
        return '{%s}' % ', '.join('%s: %s' % (k, short(v)) for k, v in list(x.items())[:4])
    s = repr(x)
    return s if len(s) < 60 else s[:57] + '...'


def logargs(args):
    out = []
    for a in args:
        if is_tx(a):
            out.append('Tx(%s)' % a.txid[:12])
        elif isinstance(a, (list, tuple)):
            out.append([str(x)[:24] for x in a])
        elif isinstance(a, str) and len(a) > 70:
            out.append(a[:32] + '..')
        else:
            out.append(a)
    return out


def run(world):
    del EXECS[:]
    _STATE['active'] = True
    sim = C20(world)
    world.debug_ns = {'sim': sim}
    sim.default_fee_cached = set()
    sim._orig_addresslist = []
    slot = sim.new_service(0)
    while sim.ch.next_op():
        sim.step()
    sim.ch.tail_block()
    if world.arm_params.get('slice', True) and sim.ch.coin('do_slice', world.arm_params.get('slice_p', 0.5)):
        sim.exhaustive_slice()
    sim.liveness()
    for srv in sim.services:
        try:
            if srv is not None and srv.cache and srv.cache.session:
                srv.cache.session.close()
        except Exception:
            pass
