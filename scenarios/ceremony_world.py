"""Ceremony world (DESIGN.md 6: C10, C02) — n cosigners, each a real Wallet in its own database, connected only by
the simulator's Channel (hand-offs of partially signed transactions as object / dict / raw hex that can be delayed,
reordered, duplicated, dropped or corrupted); a SimChain with the reference node judging every copy against the real
previous output.  arm_params['focus'] selects C10 (agreement + threshold) or C02 (verification soundness and
completeness under signing / tampering histories; also runs single-signer wallets).
"""
import copy
import os

from simkit import providers as P
from simkit.providers import CTX
from simkit.simchain import SimChain, View
from simkit.world import StopRun, SimCrash
from ref import bip32 as rbip32, codec as rcodec, hashes as rhashes, secp256k1 as rec, script as rscript, refnode
from ref.txcodec import parse_tx
from scenarios.wallet_world import MS_ACCOUNT_PATH, MS_FAMILY, PURPOSE, ref_pub_to_address

_STATE = {}


def init_worker(datadir):
    _STATE['datadir'] = datadir
    P.install(datadir, [], 'bitcoin')


def nontrivial(res):
    return sum(res['ops'].values()) >= 5 and res['ops_ok'] >= 1


class Copy:
    """One copy of a transaction somewhere in the world, with what the model knows about it."""
    _n = 0

    def __init__(self, t, holder, signers, tampered=False, via=()):
        Copy._n += 1
        self.cid = Copy._n
        self.t = t
        self.holder = holder          # party index or 'ext'
        self.signers = set(signers)   # cosigner ids (positions in self.masters) that signed this copy or an ancestor
        self.tampered = tampered
        self.via = tuple(via)         # chain of hand-off forms that produced it
        self.sent = False
        self.context_tampered = False
        self.resigned = False         # signed again after a context edit: the chain's previous output no longer applies


class Ceremony:
    def __init__(self, world):
        import bitcoinlib.wallets as BW
        import bitcoinlib.transactions as BT
        import bitcoinlib.keys as BK
        from bitcoinlib.networks import Network
        self.BW, self.BT, self.BK = BW, BT, BK
        self.w = world
        self.ch = ch = world.ch
        self.focus = world.arm_params.get('focus', 'C10')
        self.tier = world.tier
        max_n = world.arm_params.get('max_n', 4)
        self.network = ch.weighted('network', [('bitcoin', 5), ('testnet', 2)])
        self.netobj = Network(self.network)
        self.coin = rcodec.NETWORKS[self.network]['coin_type']
        self.single = self.focus == 'C02' and ch.coin('single_signer', 0.4)
        self.wt = ch.pick('wt', ['segwit', 'p2sh-segwit', 'legacy'])
        if self.single:
            self.n = self.m = 1
        else:
            self.n = ch.int('n', 2, max_n)
            self.m = ch.int('m', 1, self.n)
        self.n_parties = 1 if self.single else min(self.n, ch.int('n_parties', 2, 3))
        self.sort_keys = True if self.single else not ch.coin('unsorted', 0.15)
        self.k = 2
        self.fault_rate = ch.weighted('frate', [(0.0, 6), (0.1, 2), (0.3, 1)])
        self.msg_faults = ch.coin('msg_faults', 0.5)
        self.n_ops = ch.int('n_ops', 8, 24)
        ch.set_ops(self.n_ops)
        world.install(clock_start_offset=ch.int('clock0', 0, 10 ** 6), entropy_seed=ch.seed,
                      lib_seed=ch.int('libseed', 0, 2 ** 31))
        self.chain = SimChain(world.clock, start_height=ch.int('h0', 100, 800000))
        CTX.reset()
        CTX.world = world
        CTX.chain = self.chain
        CTX.network = self.network
        CTX.behave = self.behave
        CTX.views = {p: View(0, True) for p in range(self.k)}
        CTX.fee_base = {p: 20000 for p in range(self.k)}
        P.write_providers_json(_STATE['datadir'], [{'pid': p, 'priority': 10} for p in range(self.k)], self.network)
        self.in_op = False
        self.copies = []
        self.inflight = []     # messages: dict(form, payload, to, signers, tampered, via)
        self.broadcasts = {}   # txid -> copy id
        self.ext_addr = rcodec.p2wpkh_address(rec.pub_from_priv(12345, True), self.network)
        self.setup_parties()
        world.log.ev('config', network=self.network, wt=self.wt, m=self.m, n=self.n, parties=self.n_parties,
                     sort_keys=self.sort_keys, focus=self.focus, single=self.single)

    # -- seams ------------------------------------------------------------------------------------------
    def behave(self, pid, method, args):
        ch = self.ch
        if not self.in_op or not self.fault_rate or method != 'sendrawtransaction':
            return ('ok', None)
        if not ch.coin('pf', self.fault_rate):
            return ('ok', None)
        kind = ch.pick('pfk', ['raise', 'false', 'lost_reply'])
        if kind == 'raise':
            return ('raise', 'ClientError')
        if kind == 'false':
            return ('false', None)
        return ('lost_reply', None)

    # -- setup ------------------------------------------------------------------------------------------
    def xprv(self, node):
        return node.ser_private(rcodec.NETWORKS[self.network]['xkeys']['legacy'][1])

    def setup_parties(self):
        ch, w = self.ch, self.w
        BW = self.BW
        tag = b'%d' % (ch.seed % 1000003)
        self.masters = [rbip32.RefHDNode.from_seed(rhashes.sha256(b'cosigner %d ' % j + tag)) for j in range(self.n)]
        self.parties = []
        self.cache = os.path.join(w.scratch, 'cache.sqlite')
        if self.single:
            w.op('create_single_signer', wt=self.wt)
            wlt = BW.Wallet.create('solo', keys=self.xprv(self.masters[0]), network=self.network, witness_type=self.wt,
                                   db_uri=os.path.join(w.scratch, 'p0.sqlite'), db_cache_uri=self.cache)
            self.parties.append({'w': wlt, 'own': 0, 'db': os.path.join(w.scratch, 'p0.sqlite')})
            self.acc_path = None
            return
        acc = MS_ACCOUNT_PATH[self.wt]
        if '%d' in acc:
            acc = acc % self.coin
        self.acc_path = acc
        fam = MS_FAMILY[self.wt]
        pub_ver = rcodec.NETWORKS[self.network]['xkeys'][fam][0]
        self.account_xpubs = [mk.derive(acc).neuter().ser_public(pub_ver) for mk in self.masters]
        agreed = ch.perm('agreed_order', self.n)
        for p in range(self.n_parties):
            own = p                       # party p holds cosigner p's private master key
            order = ch.perm('order', self.n) if self.sort_keys else agreed
            keys = []
            for j in order:
                keys.append(self.xprv(self.masters[j]) if j == own else self.account_xpubs[j])
            w.op('create_party', party=p, order=order, wt=self.wt, m=self.m, n=self.n, sort_keys=self.sort_keys)
            db = os.path.join(w.scratch, 'p%d.sqlite' % p)
            kw = {}
            if self.focus == 'C10' and ch.coin('no_anti_fee_sniping', 0.25):
                kw['anti_fee_sniping'] = False      # cosigners need not agree on this setting (locktime 0 vs tip)
            wlt = BW.Wallet.create('party%d' % p, keys=keys, sigs_required=self.m, network=self.network,
                                   witness_type=self.wt, sort_keys=self.sort_keys, db_uri=db, db_cache_uri=self.cache, **kw)
            self.parties.append({'w': wlt, 'own': own, 'db': db, 'order': order})
        self.agreed = agreed

    # -- reference -------------------------------------------------------------------------------------------
    def ref_key(self, change, index, cosigner_index=0):
        """Reference script / address at a path."""
        if self.single:
            path = "m/%d'/%d'/0'/%d/%d" % (PURPOSE[self.wt], self.coin, change, index)
            node = self.masters[0].derive(path)
            return {'address': ref_pub_to_address(node.pub, self.wt, self.network), 'pubs': [node.pub]}
        rel = '%d/%d/%d' % (cosigner_index, change, index) if self.wt == 'legacy' else '%d/%d' % (change, index)
        pubs = [mk.derive(self.acc_path).derive(rel).pub for mk in self.masters]
        ordered = sorted(pubs) if self.sort_keys else [pubs[j] for j in self.agreed]
        script = rscript.multisig_script(self.m, ordered)
        if self.wt == 'legacy':
            addr = rcodec.p2sh_address(script, self.network)
        elif self.wt == 'p2sh-segwit':
            addr = rcodec.p2sh_p2wsh_address(script, self.network)
        else:
            addr = rcodec.p2wsh_address(script, self.network)
        return {'address': addr, 'script': script, 'pubs': pubs}

    # -- guarded call ----------------------------------------------------------------------------------------
    def call(self, label, fn):
        w = self.w
        self.in_op = True
        try:
            r = fn()
            w.ops_ok += 1
            return True, r
        except StopRun:
            raise
        except Exception as e:
            w.outcome('raised', op=label, exc=type(e).__name__, msg=str(e)[:140])
            w.probe('lib_exception:%s' % type(e).__name__)
            return False, e
        finally:
            self.in_op = False

    def quiet(self, fn):
        try:
            return True, fn()
        except StopRun:
            raise
        except Exception as e:
            return False, e

    # -- operations ------------------------------------------------------------------------------------------
    def op_agree(self):
        """Ask several parties for the key at the same explicit path."""
        ch, w = self.ch, self.w
        change = ch.index('chg', 2)
        index = ch.pick('idx', [0, 1, 2, 5])
        cos = ch.index('cos', self.n) if (self.wt == 'legacy' and not self.single) else None
        if cos is not None and self.focus == 'C10' and ch.coin('via_get_key', 0.4):
            return self.agree_via_get_key(change, cos)
        if self.focus == 'C10' and not self.single and ch.coin('via_get_keys', 0.3):
            return self.agree_via_get_keys(change, cos)
        w.op('agree', change=change, index=index, cosigner=cos)
        e = self.ref_key(change, index, cos or 0)
        got = []
        for p, party in enumerate(self.parties):
            kw = {'change': change, 'address_index': index}
            if cos is not None:
                kw['cosigner_id'] = cos
            ok, k = self.call('key_for_path', lambda: party['w'].key_for_path([], **kw))
            if not ok:
                continue
            got.append((p, k.address))
            if self.focus == 'C10':
                if k.address != e['address']:
                    w.violation('address_differs_from_reference', {'witness': self.wt, 'sort_keys': self.sort_keys},
                                'party %d (key order %s) derives %s at change %d index %d cosigner %s; %d-of-%d script '
                                'from the %d account keys gives %s' % (p, party.get('order'), k.address, change, index,
                                                                     cos, self.m, self.n, self.n, e['address']))
        if self.focus == 'C10' and len({a for _, a in got}) > 1:
            w.violation('parties_disagree_on_address', {'witness': self.wt, 'sort_keys': self.sort_keys},
                        'same path, different addresses: %s' % got)
        w.outcome('addresses', n=len(got), addr=got[0][1] if got else None)

    def agree_via_get_key(self, change, cos):
        """BIP45 wallets: every party is asked for the next key of cosigner branch `cos` (get_key / get_key_change with
        an explicit cosigner_id); whatever index a party is at, the key must lie in the branch that was asked for and
        carry the address the n account keys give for its path."""
        w = self.w
        w.op('agree_get_key', change=change, cosigner=cos)
        for p, party in enumerate(self.parties):
            ok, k = self.call('get_key', lambda: party['w'].get_key(cosigner_id=cos, change=change))
            if not ok:
                continue
            parts = k.path.split('/')
            try:
                branch, chg, index = int(parts[-3]), int(parts[-2]), int(parts[-1])
            except (ValueError, IndexError):
                w.violation('wrong_branch', {'witness': self.wt, 'api': 'get_key'}, 'party %d: path %s' % (p, k.path))
                continue
            if branch != cos or chg != change:
                w.violation('wrong_branch', {'witness': self.wt, 'api': 'get_key'},
                            'party %d (own cosigner index %s) asked for cosigner branch %d change %d, got %s' %
                            (p, party.get('own'), cos, change, k.path))
            e = self.ref_key(chg, index, branch)
            if k.address != e['address']:
                w.violation('address_differs_from_reference', {'witness': self.wt, 'sort_keys': self.sort_keys},
                            'party %d get_key(cosigner_id=%d, change=%d) -> %s %s; the account keys give %s' %
                            (p, cos, change, k.path, k.address, e['address']))
        w.probe('agree_via_get_key')

    def agree_via_get_keys(self, change, cos):
        """Every party is asked for several keys in one call (get_keys, for BIP45 wallets of cosigner branch `cos`): each
        returned key must lie in the branch that was asked for and carry the address the n account keys give for its
        path, whatever was derived in that wallet object before."""
        ch, w = self.ch, self.w
        n_keys = ch.int('bulk_n', 2, 4)
        w.op('agree_get_keys', change=change, cosigner=cos, n=n_keys)
        # BIP45: two cosigner branches one after the other in the same wallet objects
        branches = [None] if cos is None else [cos, (cos + 1) % self.n]
        for cos, (p, party) in [(c, pp) for c in branches for pp in enumerate(self.parties)]:
            kw = {'number_of_keys': n_keys, 'change': change}
            if cos is not None:
                kw['cosigner_id'] = cos
            ok, ks = self.call('get_keys', lambda: party['w'].get_keys(**kw))
            if not ok:
                continue
            for k in ks:
                parts = k.path.split('/')
                try:
                    chg, index = int(parts[-2]), int(parts[-1])
                    branch = int(parts[-3]) if cos is not None else 0
                except (ValueError, IndexError):
                    w.violation('wrong_branch', {'witness': self.wt, 'api': 'get_keys'}, 'party %d: path %s' % (p, k.path))
                    continue
                if chg != change or (cos is not None and branch != cos):
                    w.violation('wrong_branch', {'witness': self.wt, 'api': 'get_keys'},
                                'party %d asked for cosigner branch %s change %d, got %s' % (p, cos, change, k.path))
                    continue
                e = self.ref_key(chg, index, branch)
                if k.address != e['address']:
                    w.violation('address_differs_from_reference', {'witness': self.wt, 'sort_keys': self.sort_keys},
                                'party %d get_keys(%s) -> %s %s; the account keys give %s' %
                                (p, kw, k.path, k.address, e['address']))
        w.probe('agree_via_get_keys')

    def op_reopen(self):
        """A cosigner closes and reopens its wallet (a new Wallet object on the same database)."""
        ch, w = self.ch, self.w
        p = ch.index('reopen_party', len(self.parties))
        party = self.parties[p]
        w.op('reopen_party', party=p)
        try:
            party['w'].session.close()
        except Exception:
            pass
        ok, wl = self.call('open', lambda: self.BW.Wallet('solo' if self.single else 'party%d' % p, db_uri=party['db'],
                                                          db_cache_uri=self.cache))
        if ok:
            party['w'] = wl
            w.outcome('reopened', party=p)

    def op_fund(self):
        ch, w = self.ch, self.w
        index = ch.pick('fidx', [0, 0, 1, 2])
        cos = 0
        e = self.ref_key(0, index, cos)
        n = ch.int('nfund', 1, 3)
        vals = [ch.pick('fv', [1000000, 250000, 40000000, 77777]) for _ in range(n)]
        w.op('fund', index=index, values=vals)
        # make sure every party knows the key
        for party in self.parties:
            kw = {'change': 0, 'address_index': index}
            if self.wt == 'legacy' and not self.single:
                kw['cosigner_id'] = cos
            self.call('key_for_path', lambda: party['w'].key_for_path([], **kw))
        self.chain.fund([(rcodec.address_to_script(e['address'], self.network), v) for v in vals])
        self.chain.mine()
        for p, party in enumerate(self.parties):
            ok, r = self.call('utxos_update', lambda: party['w'].utxos_update())
        w.outcome('funded', addr=e['address'])

    def op_create(self):
        """A party creates a spend and signs with what it holds."""
        ch, w = self.ch, self.w
        p = ch.index('creator', len(self.parties))
        party = self.parties[p]
        ok, us = self.quiet(lambda: party['w'].utxos())
        total = sum(u['value'] for u in us) if ok else 0
        if not total:
            return
        amt = max(1000, total * ch.pick('pct', [10, 50, 90]) // 100)
        n_out = ch.pick('nout', [1, 1, 2])
        outs = [(self.ext_addr, amt // n_out)] * n_out
        how = ch.pick('create_how', ['send', 'send', 'sweep', 'transaction_create'])
        fee = ch.pick('fee', [None, 3000, 1500])
        rbf = self.focus == 'C10' and how == 'send' and ch.coin('rbf', 0.3)
        w.op('create', party=p, how=how, amount=amt, fee=fee, **({'rbf': True} if rbf else {}))
        if how == 'send':
            ok, t = self.call('send', lambda: party['w'].send(outs, fee=fee, broadcast=False, min_confirms=0,
                                                             **({'replace_by_fee': True} if rbf else {})))
            signed = ok
        elif how == 'sweep':
            ok, t = self.call('sweep', lambda: party['w'].sweep(self.ext_addr, broadcast=False, min_confirms=0))
            signed = ok
        else:
            ok, t = self.call('transaction_create', lambda: party['w'].transaction_create(outs, fee=fee, min_confirms=0))
            signed = False
        if not ok or t is None:
            return
        signers = {party['own']} if signed else set()
        c = Copy(t, p, signers, via=('created',))
        self.copies.append(c)
        w.outcome('copy', cid=c.cid, n_in=len(t.inputs), signers=sorted(signers), verified=bool(t.verified))
        self.check_copy(c, 'create')

    def pick_copy(self):
        live = [c for c in self.copies if not c.sent]
        if not live:
            return None
        return live[self.ch.index('copy', len(live))]

    def op_sign(self):
        """The holder of a copy signs (again), or an external cosigner signs a forwarded copy."""
        ch, w = self.ch, self.w
        c = self.pick_copy()
        if c is None:
            return
        who = ch.weighted('signer', [('holder', 5), ('external', 3), ('foreign', 1)])
        if self.single:
            who = ch.weighted('signer', [('holder', 6), ('foreign', 1)])
        if getattr(c, 'parsed', False):
            # a parsed Transaction knows neither wallet nor key paths: any key offered is just a key
            who = 'foreign'
        if who == 'holder':
            party = self.parties[c.holder]
            w.op('sign', cid=c.cid, by='party%d' % c.holder)
            ok, _ = self.call('sign', lambda: c.t.sign())
            if ok:
                c.signers.add(party['own'])
        elif who == 'external':
            ext = list(range(self.n))
            j = ext[ch.index('ext_j', len(ext))]
            rep = self.focus == 'C02' and ch.coin('replace_signatures', 0.25)
            w.op('sign', cid=c.cid, by='cosigner%d' % j, **({'replace_signatures': True} if rep else {}))
            hk = self.BK.HDKey(self.xprv(self.masters[j]), network=self.network)
            ok, _ = self.call('sign_ext', lambda: c.t.sign(hk, **({'replace_signatures': True} if rep else {})))
            if ok:
                c.signers.add(j)
                self.add_holder(c)
        else:
            w.op('sign', cid=c.cid, by='foreign')
            hk = self.BK.HDKey(self.xprv(rbip32.RefHDNode.from_seed(b'foreign key seed!')), network=self.network)
            fail = ch.coin('fail_on_unknown', 0.5)
            n_sigs0 = sum(len(i.signatures) for i in c.t.inputs)
            ok, _ = self.call('sign_foreign', lambda: c.t.sign(hk, fail_on_unknown_key=fail))
            if ok:
                self.add_holder(c)
            if sum(len(i.signatures) for i in c.t.inputs) != n_sigs0 and getattr(c, 'parsed', False):
                # a parsed input without script data lists no keys: the library adopts whatever key is offered.  From
                # here on the copy carries a signature of a key outside the real key set - an edited copy
                w.probe('foreign_signature_adopted_by_parsed_copy')
                c.tampered = True
        if ok and c.context_tampered:
            c.resigned = True
        if ok and isinstance(c.t, self.BW.WalletTransaction):
            c.lib_touched_after_edit = True
        w.outcome('signed', cid=c.cid, signers=sorted(c.signers), verified=bool(getattr(c.t, 'verified', False)))
        self.check_copy(c, 'sign')

    def op_sign_round(self):
        """The missing cosigners sign one per call in a drawn order, the copy is verified after every call (what a
        coordinator does while collecting signatures)."""
        ch, w = self.ch, self.w
        if self.single:
            return self.sign_per_key()
        live = [c for c in self.copies if not c.sent and not getattr(c, 'parsed', False) and len(c.signers) < self.m]
        if not live:
            return self.op_sign()
        c = live[ch.index('round_copy', len(live))]
        rest = [j for j in range(self.n) if j not in c.signers]
        order = [rest[i] for i in ch.perm('round_order', len(rest))]
        for j in order:
            if len(c.signers) >= self.m:
                break
            w.op('sign', cid=c.cid, by='cosigner%d' % j, round=True)
            hk = self.BK.HDKey(self.xprv(self.masters[j]), network=self.network)
            ok, _ = self.call('sign_ext', lambda: c.t.sign(hk))
            if ok:
                c.signers.add(j)
                self.add_holder(c)
                if c.context_tampered:
                    c.resigned = True
                if isinstance(c.t, self.BW.WalletTransaction):
                    c.lib_touched_after_edit = True
            w.outcome('signed', cid=c.cid, signers=sorted(c.signers), verified=bool(getattr(c.t, 'verified', False)))
            self.check_copy(c, 'sign')

    def sign_per_key(self):
        """Single-signer wallet, several inputs paid to different addresses: the transaction is signed with one address
        key per call (in a drawn order, keys the transaction does not need are tolerated), not with the wallet at once."""
        ch, w = self.ch, self.w
        live = [c for c in self.copies if not c.sent and not getattr(c, 'parsed', False) and not c.signers and
                not c.tampered and len(c.t.inputs) >= 2]
        if not live:
            # make one: an unsigned spend of (nearly) everything the wallet holds
            party = self.parties[0]
            ok, us = self.quiet(lambda: party['w'].utxos())
            if not ok or len({u['address'] for u in us}) < 2:
                return self.op_sign()
            total = sum(u['value'] for u in us)
            w.op('create', party=0, how='transaction_create', amount=total * 9 // 10, fee=3000, for_per_key=True)
            ok, t = self.call('transaction_create', lambda: party['w'].transaction_create(
                [(self.ext_addr, total * 9 // 10)], fee=3000, min_confirms=0))
            if not ok or t is None or len(t.inputs) < 2:
                return
            c0 = Copy(t, 0, set(), via=('created',))
            self.copies.append(c0)
            w.outcome('copy', cid=c0.cid, n_in=len(t.inputs), signers=[], verified=bool(t.verified))
            live = [c0]
        c = live[ch.index('pk_copy', len(live))]
        by_addr = {}
        for chg in (0, 1):
            for idx in range(0, 6):
                path = "m/%d'/%d'/0'/%d/%d" % (PURPOSE[self.wt], self.coin, chg, idx)
                node = self.masters[0].derive(path)
                by_addr[ref_pub_to_address(node.pub, self.wt, self.network)] = node
        nodes = []
        for i in c.t.inputs:
            n = by_addr.get(i.address)
            if n is None:
                return self.op_sign()
            if n not in nodes:
                nodes.append(n)
        order = [nodes[i] for i in ch.perm('pk_order', len(nodes))]
        # a plain Transaction whose inputs know only public keys, as an offline signer would build it from the
        # wallet's unsigned transaction (WalletTransaction.sign would add the wallet's own keys at the first call,
        # and inputs taken over from the wallet hold its private key objects)
        src = c.t

        def build():
            T = self.BT.Transaction(network=self.network, witness_type='legacy' if self.wt == 'legacy' else 'segwit',
                                    locktime=src.locktime, version=src.version_int)
            for i in src.inputs:
                n_ = by_addr[i.address]
                T.add_input(prev_txid=i.prev_txid, output_n=i.output_n_int, keys=[n_.pub.hex()], value=i.value,
                            sequence=i.sequence, witness_type=self.wt, address=i.address)
            for o in src.outputs:
                T.add_output(o.value, lock_script=bytes(o.lock_script))
            return T
        ok, plain = self.quiet(build)
        if not ok:
            self.w.probe('plain_transaction_not_built:%s' % type(plain).__name__)
            return self.op_sign()
        c = Copy(plain, c.holder, set(), via=c.via + ('plain',))
        self.copies.append(c)
        ok_all = True
        for n in order:
            w.op('sign', cid=c.cid, by='address_key', per_key=True)
            k = self.BK.Key(n.priv.to_bytes(32, 'big').hex(), network=self.network, compressed=True)
            ok, _ = self.call('sign_key', lambda: c.t.sign(k, fail_on_unknown_key=False))
            ok_all = ok_all and ok
            w.outcome('signed', cid=c.cid, verified=bool(getattr(c.t, 'verified', False)))
        if ok_all:
            c.signers.add(0)
            if isinstance(c.t, self.BW.WalletTransaction):
                c.lib_touched_after_edit = True
        self.check_copy(c, 'sign')

    def op_grind(self):
        """Single-signer wallet: look for a spend one of whose signatures is shorter than usual (r or s below 2**248,
        about one signature in 130) by lowering the paid amount satoshi by satoshi; every candidate is built and signed
        through the library's plain Transaction API from public keys.  The copy found is judged like every other copy
        and then taken through serialize -> parse."""
        ch, w = self.ch, self.w
        if not self.single or getattr(self, 'ground', False):
            return self.op_create()
        party = self.parties[0]
        ok, us = self.quiet(lambda: party['w'].utxos())
        if not ok or not us:
            return self.op_fund()
        self.ground = True
        us = us[:3]
        by_addr = {}
        for chg in (0, 1):
            for idx in range(0, 6):
                path = "m/%d'/%d'/0'/%d/%d" % (PURPOSE[self.wt], self.coin, chg, idx)
                node = self.masters[0].derive(path)
                by_addr[ref_pub_to_address(node.pub, self.wt, self.network)] = node
        total = sum(u['value'] for u in us)
        if any(u['address'] not in by_addr for u in us) or total < 50000:
            return self.op_create()
        budget = 150 if self.tier == 'quick' else 400
        w.op('grind', n_in=len(us), budget=budget)

        def build(a):
            T = self.BT.Transaction(network=self.network, witness_type='legacy' if self.wt == 'legacy' else 'segwit')
            nodes = []
            for u in us:
                n_ = by_addr[u['address']]
                if n_ not in nodes:
                    nodes.append(n_)
                T.add_input(prev_txid=u['txid'], output_n=u['output_n'], keys=[n_.pub.hex()], value=u['value'],
                            witness_type=self.wt, address=u['address'])
            T.add_output(total - 3000 - a, address=self.ext_addr)
            for n_ in nodes:
                T.sign(self.BK.Key(n_.priv.to_bytes(32, 'big').hex(), network=self.network, compressed=True))
            return T

        def short_sig(raw):
            rt = parse_tx(bytes(raw))
            for vin in rt.vin:
                items = list(vin.witness)
                try:
                    items += rscript.parse_script(vin.script_sig) if vin.script_sig else []
                except Exception:
                    pass
                for b in items:
                    if isinstance(b, bytes) and 9 <= len(b) <= 70 and b[0] == 0x30:
                        return True
            return False
        found, a = None, 0
        for a in range(budget):
            ok, T = self.quiet(lambda: build(a))
            if not ok:
                w.probe('plain_transaction_not_built:%s' % type(T).__name__)
                break
            ok, raw = self.quiet(lambda: T.raw())
            if ok and short_sig(raw):
                found = T
                break
        w.outcome('ground', attempts=a + 1, found=found is not None)
        if found is None:
            return
        w.probe('short_signature_spend_found')
        c = Copy(found, 0, {0}, via=('created', 'plain', 'ground'))
        self.copies.append(c)
        self.check_copy(c, 'sign')
        self.op_roundtrip(c)

    def add_holder(self, c):
        """WalletTransaction.sign(keys) also signs with the private keys the holding wallet has for the inputs."""
        if isinstance(c.t, self.BW.WalletTransaction) and c.holder != 'ext':
            c.signers.add(self.parties[c.holder]['own'])

    def op_handoff(self):
        """Export a copy and put it on the channel to another party."""
        ch, w = self.ch, self.w
        c = self.pick_copy()
        if c is None or len(self.parties) < 2:
            return
        others = [p for p in range(len(self.parties)) if p != c.holder]
        to = others[ch.index('to', len(others))]
        form = ch.pick('form', ['object', 'dict', 'raw'])
        w.op('handoff', cid=c.cid, frm=c.holder, to=to, form=form)
        if form == 'object':
            ok, payload = self.quiet(lambda: copy.deepcopy(c.t))
        elif form == 'dict':
            ok, payload = self.quiet(lambda: c.t.as_dict())
        else:
            ok, payload = self.quiet(lambda: c.t.raw_hex())
        if not ok:
            w.outcome('export_failed', exc=repr(payload)[:100])
            return
        msg = {'form': form, 'payload': payload, 'to': to, 'signers': set(c.signers), 'tampered': c.tampered,
               'via': c.via + (form,), 'src': c.cid, 'ctx': (c.context_tampered, c.resigned)}
        if self.msg_faults:
            f = ch.weighted('msg_fault', [('none', 6), ('drop', 1), ('dup', 1)])
            if f == 'drop':
                w.fault('msg_drop', src=c.cid)
                return
            if f == 'dup':
                w.fault('msg_dup', src=c.cid)
                dup = dict(msg)
                if form != 'raw':
                    # a second copy of the message, not a second reference to the same object (the receiver's import
                    # shares input / output objects with what it is given)
                    okd, dup_payload = self.quiet(lambda: copy.deepcopy(payload))
                    if okd:
                        dup['payload'] = dup_payload
                self.inflight.append(dup)
        self.inflight.append(msg)
        if not self.msg_faults or ch.coin('deliver_now', 0.6):
            self.deliver(len(self.inflight) - 1)

    def op_deliver(self):
        if not self.inflight:
            return
        i = self.ch.index('msg', len(self.inflight))
        if i != 0:
            self.w.fault('msg_reorder', n=len(self.inflight))
        self.w.op('deliver', i=i)
        self.deliver(i)

    def deliver(self, i):
        w = self.w
        msg = self.inflight.pop(i)
        party = self.parties[msg['to']]
        form = msg['form']
        # a cosigner looks at the chain before judging a spend it is asked to sign (fault-free)
        self.quiet(lambda: party['w'].utxos_update())
        if form == 'raw':
            ok, t2 = self.call('import_raw', lambda: party['w'].transaction_import_raw(msg['payload']))
        else:
            ok, t2 = self.call('import', lambda: party['w'].transaction_import(msg['payload']))
        if not ok or t2 is None:
            w.probe('import_failed:%s' % form)
            return
        c = Copy(t2, msg['to'], msg['signers'], tampered=msg['tampered'], via=msg['via'])
        c.context_tampered, c.resigned = msg['ctx']
        self.copies.append(c)
        w.outcome('imported', cid=c.cid, src=msg['src'], form=form, signers=sorted(c.signers),
                  sigs=[len(i_.signatures) for i_ in t2.inputs], verified=bool(t2.verified))
        self.check_copy(c, 'import')

    def op_send(self):
        ch, w = self.ch, self.w
        c = self.pick_copy()
        if c is None:
            return
        w.op('send', cid=c.cid, signers=sorted(c.signers))
        n_acc0 = len(self.chain.accepted_broadcasts)
        n_calls0 = len([x for x in CTX.calls if x['method'] == 'sendrawtransaction'])
        ok, _ = self.call('send', lambda: c.t.send())
        attempts = [x for x in CTX.calls if x['method'] == 'sendrawtransaction'][n_calls0:]
        new_acc = self.chain.accepted_broadcasts[n_acc0:]
        pushed = bool(getattr(c.t, 'pushed', False))
        w.outcome('sent', cid=c.cid, pushed=pushed, accepted=len(new_acc), attempts=len(attempts),
                  error=str(getattr(c.t, 'error', ''))[:60])
        if attempts and getattr(c, 'lib_touched_after_edit', True) and not c.context_tampered:
            # (a copy whose outpoint / amount / key list was edited tells the library another context than the chain's)
            # the library looked at this copy (import / sign) after the last edit in transit and still offered it to the
            # network: it must carry m valid signatures per input then
            vs, _rt = self.verdicts(c.t)
            if vs is not None and all(v is not None for v in vs) and \
                    not all(v.n_valid_sigs_distinct_keys >= max(self.m, 1) for v in vs):
                w.violation('invalid_spend_offered_to_network', {'witness': self.wt, 'via': c.via[-1], 'tampered': c.tampered},
                            'copy %d (%s, signers %s): send() handed it to a provider; reference: %s' %
                            (c.cid, '>'.join(c.via), sorted(c.signers),
                             [(v.n_valid_sigs_distinct_keys, v.reason) for v in vs]))
        if self.focus == 'C10':
            if len(c.signers) < self.m and not c.tampered:
                if pushed or attempts:
                    w.violation('undersigned_broadcast', {'witness': self.wt, 'via': c.via[-1]},
                                'copy %d signed by %s (< %d) was handed to a provider (pushed=%s, accepted=%s)' %
                                (c.cid, sorted(c.signers), self.m, pushed, bool(new_acc)))
            for txid in new_acc:
                self.check_double_spend(txid, c)
        if pushed:
            c.sent = True

    def check_double_spend(self, txid, c):
        """Whatever is broadcast and accepted is recorded once: no second, different spend of the same outputs."""
        self.broadcasts[txid] = c.cid

    def op_mine(self):
        self.w.op('mine')
        self.chain.mine()

    # -- tampering (C02, and C10's soundness side) --------------------------------------------------------------
    def op_tamper(self):
        """Single-field edit of a copy (object form) after signing."""
        ch, w = self.ch, self.w
        c = self.pick_copy()
        if c is None:
            return
        t = c.t
        kinds = ['out_value', 'out_script', 'swap_outputs', 'add_output', 'drop_output', 'locktime', 'version', 'sequence',
                 'outpoint_index', 'outpoint_txid', 'input_value', 'sig_byte', 'sig_drop', 'sig_dup', 'pubkey_swap']
        kind = ch.pick('tamper', kinds)
        w.op('tamper', cid=c.cid, field=kind)
        try:
            done = self.apply_tamper(t, kind)
        except StopRun:
            raise
        except Exception as e:
            w.outcome('tamper_failed', exc=type(e).__name__)
            return
        if not done:
            w.outcome('tamper_skipped')
            return
        c.tampered = True
        c.lib_touched_after_edit = False
        if kind in ('outpoint_index', 'outpoint_txid', 'input_value', 'pubkey_swap'):
            # the edit changes what the input refers to; anyone signing afterwards signs for that other context
            c.context_tampered = True
        w.fault('msg_corrupt', field=kind)
        self.check_copy(c, 'tamper:' + kind)

    def apply_tamper(self, t, kind):
        ch = self.ch
        if kind == 'out_value':
            o = t.outputs[ch.index('t_o', len(t.outputs))]
            o.value += ch.pick('t_dv', [1, -1, 1000])
            return True
        if kind == 'out_script':
            o = t.outputs[ch.index('t_o', len(t.outputs))]
            s = bytearray(o.lock_script)
            s[-2] ^= 1
            o.lock_script = bytes(s)
            return True
        if kind == 'swap_outputs':
            if len(t.outputs) < 2:
                return False
            t.outputs[0], t.outputs[1] = t.outputs[1], t.outputs[0]
            # keep the object coherent: an output's own number is its position (a wallet that later stores the
            # transaction books the outputs under these numbers)
            for n_, o in enumerate(t.outputs):
                if hasattr(o, 'output_n'):
                    o.output_n = n_
            return True
        if kind == 'add_output':
            t.add_output(1000, self.ext_addr)
            return True
        if kind == 'drop_output':
            if len(t.outputs) < 2:
                return False
            t.outputs.pop()
            return True
        if kind == 'locktime':
            t.locktime = (t.locktime or 0) + 1
            return True
        if kind == 'version':
            # the serialized field is `version` (bytes); `version_int` is its derived copy - an edit may reach both or
            # only the field that is serialized
            nv = ch.pick('t_ver', [v for v in (1, 2, 3, 0) if v != t.version_int])
            if ch.coin('t_both', 0.5):
                t.version_int = nv
            t.version = nv.to_bytes(4, 'big')
            return True
        i = t.inputs[ch.index('t_i', len(t.inputs))]
        if kind == 'sequence':
            i.sequence = (i.sequence - 1) & 0xffffffff
            return True
        if kind == 'outpoint_index':
            nn = i.output_n_int + 1
            if ch.coin('t_both', 0.5):
                i.output_n_int = nn
            i.output_n = nn.to_bytes(4, 'big')
            return True
        if kind == 'outpoint_txid':
            b = bytearray(i.prev_txid)
            b[0] ^= 1
            i.prev_txid = bytes(b)
            return True
        if kind == 'input_value':
            i.value += 1
            return True
        if not i.signatures:
            return False
        if kind == 'sig_byte':
            s = i.signatures[ch.index('t_s', len(i.signatures))]
            which = ch.pick('t_rs', ['r', 's'])
            setattr(s, which, getattr(s, which) ^ 1)
            for attr in ('_der_encoded',):
                if hasattr(s, attr):
                    setattr(s, attr, b'')
            i.update_scripts()
            return True
        if kind == 'sig_drop':
            i.signatures.pop()
            i.update_scripts()
            return True
        if kind == 'sig_dup':
            if len(i.signatures) >= max(getattr(i, 'sigs_required', 1) or 1, 2) and ch.coin('dup_replace', 0.6):
                # one signature in every slot: as many signatures as required, but of a single signer
                i.signatures = [i.signatures[0]] * len(i.signatures)
            else:
                i.signatures.append(i.signatures[0])
            i.update_scripts()
            return True
        if kind == 'pubkey_swap':
            if len(i.keys) < 2:
                return False
            i.keys[0], i.keys[-1] = i.keys[-1], i.keys[0]
            i.redeemscript = b''
            i.update_scripts()
            return True
        return False

    def op_tamper_wire(self):
        """A single-field edit of the *serialized* transaction in transit (the receiver parses what arrives): the
        hash-type byte of a signature, one byte inside a DER signature or a public key, an amount, a sequence, the
        locktime.  The parsed copy is judged like every other tampered copy."""
        ch, w = self.ch, self.w
        c = self.pick_copy()
        if c is None:
            return
        ok, raw = self.quiet(lambda: c.t.raw())
        if not ok:
            return
        try:
            rt = parse_tx(bytes(raw))
        except Exception:
            return
        kind = ch.pick('wire', ['sig_hashtype', 'sig_hashtype', 'sig_der_byte', 'pubkey_byte', 'out_value', 'sequence',
                                'locktime', 'outpoint_zero_txid', 'outpoint_index', 'version'])
        w.op('tamper_wire', cid=c.cid, field=kind)

        def is_sig(b):
            return isinstance(b, bytes) and 68 <= len(b) <= 74 and b[0] == 0x30

        def is_pub(b):
            return isinstance(b, bytes) and len(b) in (33, 65) and b[0] in (2, 3, 4)

        def edit_item(b):
            if kind == 'sig_hashtype' and is_sig(b):
                return b[:-1] + bytes([ch.pick('w_ht', [2, 3, 0x81, 0x82, 0x83, 0])])
            if kind == 'sig_der_byte' and is_sig(b):
                # any byte of the DER structure (tag, lengths, r, s), not the hash-type byte
                pos = ch.pick('w_pos', [0, 1, 2, 3] + list(range(4, 40)))
                return b[:pos] + bytes([b[pos] ^ 1]) + b[pos + 1:]
            if kind == 'pubkey_byte' and is_pub(b):
                pos = 1 + ch.index('w_pos', 30)
                return b[:pos] + bytes([b[pos] ^ 1]) + b[pos + 1:]
            return None
        done = False
        if kind in ('sig_hashtype', 'sig_der_byte', 'pubkey_byte'):
            # every signature / public key of every input is a candidate (not only the first one of an input)
            def is_target(b):
                return is_sig(b) if kind != 'pubkey_byte' else is_pub(b)
            cands = []
            for idx, vin in enumerate(rt.vin):
                for j, item in enumerate(vin.witness):
                    if is_target(item):
                        cands.append((idx, 'w', j))
                try:
                    items = rscript.parse_script(vin.script_sig) if vin.script_sig else []
                except Exception:
                    items = []
                for j, item in enumerate(items):
                    if is_target(item):
                        cands.append((idx, 's', j))
            if cands:
                idx, where, j = cands[ch.index('w_cand', len(cands))]
                vin = rt.vin[idx]
                if where == 'w':
                    wit = list(vin.witness)
                    e = edit_item(wit[j])
                    if e is not None:
                        wit[j] = e
                        vin.witness = wit
                        done = True
                else:
                    items = rscript.parse_script(vin.script_sig)
                    e = edit_item(items[j])
                    if e is not None:
                        items[j] = e
                        vin.script_sig = rscript.ser_script(items)
                        done = True
        elif kind == 'out_value':
            o = rt.vout[ch.index('w_o', len(rt.vout))]
            o.value = 0 if (o.value and ch.coin('w_zero', 0.2)) else o.value + ch.pick('w_dv', [1, -1, 1000])
            done = o.value >= 0
        elif kind == 'sequence':
            vin = rt.vin[ch.index('w_in', len(rt.vin))]
            vin.sequence = 0 if (vin.sequence and ch.coin('w_zero', 0.3)) else (vin.sequence - 1) & 0xffffffff
            done = True
        elif kind == 'locktime':
            rt.locktime = 0 if (rt.locktime and ch.coin('w_zero', 0.3)) else (rt.locktime + 1) & 0xffffffff
            done = True
        elif kind == 'outpoint_zero_txid':
            rt.vin[ch.index('w_in', len(rt.vin))].prev_txid = b'\0' * 32
            done = True
        elif kind == 'outpoint_index':
            vin = rt.vin[ch.index('w_in', len(rt.vin))]
            vin.vout = 0 if (vin.vout and ch.coin('w_zero', 0.3)) else (vin.vout + 1) & 0xffffffff
            done = True
        elif kind == 'version':
            # 0 and values above 2 included: the parser has to keep whatever the four bytes say
            rt.version = ch.pick('w_ver', [v for v in (0, 0, 1, 2, 3, 0x7fffffff) if v != rt.version])
            done = True
        if not done:
            w.outcome('tamper_skipped')
            return
        raw2 = rt.serialize().hex()

        def parse():
            t2 = self.BT.Transaction.parse_hex(raw2, network=self.network)
            for i2, i1 in zip(t2.inputs, c.t.inputs):
                i2.value = i1.value
            return t2
        ok, t2 = self.call('parse', parse)
        w.fault('msg_corrupt', field='wire_' + kind)
        if not ok:
            w.probe('edited_wire_form_rejected_by_parser')
            return
        c2 = Copy(t2, c.holder, set(c.signers), tampered=True, via=c.via + ('parsed',))
        c2.parsed = True
        c2.context_tampered, c2.resigned = c.context_tampered, c.resigned
        if kind in ('outpoint_zero_txid', 'outpoint_index'):
            # as for the same edit of the object: the copy no longer names the previous output it was made for
            c2.context_tampered = True
        c2.wire_raw = None if kind in ('sig_hashtype', 'sig_der_byte', 'pubkey_byte') else bytes.fromhex(raw2)
        self.copies.append(c2)
        w.outcome('parsed', cid=c2.cid)
        self.check_copy(c2, 'tamper:wire_' + kind)

    def op_roundtrip(self, c=None):
        """serialize -> parse -> re-attach input values: the parsed copy must verify exactly like the reference says."""
        ch, w = self.ch, self.w
        c = c or self.pick_copy()
        if c is None:
            return
        w.op('roundtrip', cid=c.cid)
        ok, raw = self.quiet(lambda: c.t.raw_hex())
        if not ok:
            return

        def parse():
            t2 = self.BT.Transaction.parse_hex(raw, network=self.network)
            for i2, i1 in zip(t2.inputs, c.t.inputs):
                i2.value = i1.value
            return t2
        ok, t2 = self.call('parse', parse)
        if not ok:
            w.probe('parse_failed')
            if not c.tampered and self.focus == 'C02':
                rt = self.ref_parse(raw)
                if rt is not None:
                    w.violation('own_serialization_does_not_parse', {'witness': self.wt},
                                'Transaction.parse_hex failed on the library\'s own serialization: %r' % (t2,))
            return
        ok_v, src_ver = self.quiet(lambda: c.t.verify())
        # the raw form carries signatures only when an input is complete: a partially signed copy parses unsigned
        c2 = Copy(t2, c.holder, c.signers if (ok_v and src_ver) else set(), tampered=c.tampered, via=c.via + ('parsed',))
        c2.parsed = True
        c2.context_tampered, c2.resigned = c.context_tampered, c.resigned
        self.copies.append(c2)
        w.outcome('parsed', cid=c2.cid)
        self.check_copy(c2, 'roundtrip')

    def ref_parse(self, raw_hex):
        try:
            return parse_tx(bytes.fromhex(raw_hex))
        except Exception:
            return None

    # -- the oracle ------------------------------------------------------------------------------------------
    def verdicts(self, t):
        """Reference verdict per input for the copy's current serialization, against the chain's previous outputs.
        Returns (list of InputVerdict or None, reason)."""
        ok, raw = self.quiet(lambda: t.raw())
        if not ok:
            return None, 'does not serialize: %r' % (raw,)
        try:
            rt = parse_tx(bytes(raw))
        except Exception as e:
            return None, 'reference parser: %r' % (e,)
        vs = []
        for idx, vin in enumerate(rt.vin):
            op = (vin.prev_txid_hex(), vin.vout)
            if op not in self.chain.outs:
                vs.append(None)
                continue
            spk, val = self.chain.outs[op]
            vs.append(refnode.verify_input(rt, idx, spk, val))
        return vs, rt

    def self_verdicts(self, t, claimed_amounts=False, raw=None):
        """Reference verdict per input judged against the keys / script the input itself lists (the previous output
        is reconstructed from the unlocking data, the amount is the chain's if the outpoint exists, else the claimed
        one).  This is what verify() can be held to when the library was never told the previous output.  With `raw`
        the bytes that arrived are judged instead of the library's serialization of what it parsed from them."""
        if raw is None:
            ok, raw = self.quiet(lambda: t.raw())
            if not ok:
                return None
        try:
            rt = parse_tx(bytes(raw))
        except Exception:
            return None
        out = []
        for idx, vin in enumerate(rt.vin):
            spk = None
            try:
                items = rscript.parse_script(vin.script_sig) if vin.script_sig else []
            except Exception:
                items = None
            wit = list(vin.witness)
            try:
                if wit and not vin.script_sig:
                    if len(wit) == 2 and len(wit[1]) in (33, 65):
                        spk = rscript.p2wpkh_script(rhashes.hash160(wit[1]))
                    else:
                        spk = rscript.p2wsh_script(rhashes.sha256(wit[-1]))
                elif wit and items and len(items) == 1 and isinstance(items[0], bytes):
                    spk = rscript.p2sh_script(rhashes.hash160(items[0]))
                elif items and not wit:
                    if len(items) == 2 and isinstance(items[1], bytes) and len(items[1]) in (33, 65):
                        spk = rscript.p2pkh_script(rhashes.hash160(items[1]))
                    elif isinstance(items[-1], bytes) and rscript.parse_multisig(items[-1]):
                        spk = rscript.p2sh_script(rhashes.hash160(items[-1]))
            except Exception:
                spk = None
            if spk is None:
                out.append(None)
                continue
            op = (vin.prev_txid_hex(), vin.vout)
            if op in self.chain.outs and not claimed_amounts:
                val = self.chain.outs[op][1]
            else:
                val = t.inputs[idx].value if idx < len(t.inputs) else 0
            out.append(refnode.verify_input(rt, idx, spk, val))
        return out

    @staticmethod
    def object_level_valid(t, idx, v):
        """Number of distinct keys the library's input object lists for which one of the signatures it carries is
        valid over the reference digest of the serialized input."""
        try:
            z = int(v.digest_hex, 16)
            inp = t.inputs[idx]
            n = 0
            for k in inp.keys:
                pub = bytes(k.public_byte)
                if any(s is not None and rec.ecdsa_verify(pub, z, int(s.r), int(s.s)) for s in inp.signatures):
                    n += 1
            return n
        except Exception:
            return 0

    def check_copy(self, c, stage):
        w = self.w
        t = c.t
        # what the library itself concluded in the call that has just returned (sign / import set `verified`; send()
        # relies on it) - read before verify() recomputes it
        cached = bool(getattr(t, 'verified', False)) if stage.split(':')[0] in ('sign', 'import', 'create') else None
        ok, ver = self.quiet(lambda: t.verify())
        if not ok:
            w.probe('verify_raised')
            ver = False
        vs, rt = self.verdicts(t)
        n_signers = len(c.signers)
        # a raw hand-off anywhere in the chain is what matters for the recorded raw-export finding
        sig = {'witness': self.wt, 'stage': stage.split(':')[0], 'via': 'raw' if 'raw' in c.via else c.via[-1],
               'multisig': not self.single}
        if vs is None:
            if ver:
                w.violation('verifies_but_unserializable', sig, 'verify() True but %s' % rt)
            return
        ref_all = all(v is not None and v.ok for v in vs)
        ref_enough = all(v is not None and v.n_valid_sigs_distinct_keys >= max(self.m, 1) for v in vs)
        if cached and not ver and not ref_enough and all(v is not None for v in vs) and not c.context_tampered:
            w.violation('verified_flag_true_without_enough_valid_signatures', dict(sig, flag='cached'),
                        'copy %d (%s, signers %s, tampered=%s): after %s the transaction says verified=True; verify() %s, '
                        'reference: %s' % (c.cid, '>'.join(c.via), sorted(c.signers), c.tampered, stage, ver,
                                           [(v.n_valid_sigs_distinct_keys, v.reason) for v in vs]))
        w.state_sig(self.wt, self.m, self.n, n_signers if n_signers < 4 else 4, c.tampered, bool(ver), ref_all, c.via[-1])
        w.probe('copy_checked')
        # soundness: verify() True only if every input carries the required number of signatures, each valid for a
        # distinct public key the input lists, over the reference digest of that input
        if ver:
            # signatures made after an edit of the outpoint / amount commit to what the copy then claimed
            sv = self.self_verdicts(t, claimed_amounts=c.resigned)
            if stage.startswith('tamper:wire_') and getattr(c, 'wire_raw', None):
                # an edit of a field the signatures commit to: the verdict is about the bytes that arrived (a parser
                # that reads another value than the bytes say would otherwise be judged on its own reading)
                sv = self.self_verdicts(t, claimed_amounts=c.resigned, raw=c.wire_raw)
                w.probe('edited_wire_form_judged_on_arrived_bytes')
            bad = None
            if sv is None:
                bad = 'not serializable'
            else:
                for i, v in enumerate(sv):
                    if v is None:
                        bad = 'input %d carries no recognisable signature/key data' % i
                    elif v.n_valid_sigs_distinct_keys < max(v.m, 1):
                        bad = 'input %d: %d valid signature(s) by distinct listed keys, %d required (%s)' % \
                              (i, v.n_valid_sigs_distinct_keys, max(v.m, 1), v.reason)
                        if c.tampered and c.resigned and self.object_level_valid(t, i, v) >= max(v.m, 1):
                            # signed again after an edit in transit: the library never knew the previous output and
                            # may list more keys than it serializes.  The statement speaks of the signatures the input
                            # carries and the keys it lists; held to that, over the reference digest, it is satisfied.
                            w.probe('resigned_after_edit_valid_at_object_level_only')
                            bad = None
                    if bad:
                        break
            if bad:
                field = stage.split(':')[1] if ':' in stage else ''
                w.violation('verify_true_without_enough_valid_signatures', dict(sig, tamper=field),
                            'copy %d (%s, signers %s, tampered=%s): verify() True, reference: %s' %
                            (c.cid, '>'.join(c.via), sorted(c.signers), c.tampered, bad))
            # ... and, for copies that still spend the chain's output, against that output's script and threshold
            if not ref_enough and not c.resigned and not getattr(c, 'parsed', False):
                badc = [(i, v.reason if v else 'unknown prevout', v.n_valid_sigs_distinct_keys if v else 0)
                        for i, v in enumerate(vs) if not (v and v.n_valid_sigs_distinct_keys >= self.m)]
                field = stage.split(':')[1] if ':' in stage else ''
                w.violation('verify_true_without_enough_valid_signatures', dict(sig, tamper=field, against='prevout'),
                            'copy %d (%s, signers %s, tampered=%s): verify() True, reference against the previous '
                            'output: %s (m=%d)' % (c.cid, '>'.join(c.via), sorted(c.signers), c.tampered, badc, self.m))
        if self.focus == 'C10' and not c.tampered:
            if n_signers < self.m and ref_all:
                w.violation('harness_model_error', sig, 'model says %d signers but the node accepts' % n_signers)
            if n_signers < self.m and (ver or getattr(t, 'verified', False)):
                w.violation('undersigned_verifies', sig, 'copy %d signed by %s of %d required: verify() %s verified %s' %
                            (c.cid, sorted(c.signers), self.m, ver, getattr(t, 'verified', None)))
            if n_signers >= self.m:
                if not ver or not ref_all:
                    reasons = [v.reason if v else 'unknown prevout' for v in vs]
                    w.violation('enough_signers_but_not_valid', dict(sig, lib_verify=bool(ver), node_accepts=ref_all),
                                'copy %d (%s) signed by cosigners %s (m=%d): verify() %s, reference node: %s; '
                                'signatures per input %s' %
                                (c.cid, '>'.join(c.via), sorted(c.signers), self.m, ver, reasons,
                                 [len(i.signatures) for i in t.inputs]))
        if self.focus == 'C02' and not c.tampered:
            # completeness: signed through the library by >= m distinct correct keys
            if n_signers >= self.m and not ver:
                w.violation('complete_signatures_do_not_verify', sig,
                            'copy %d (%s) signed by %s (m=%d) but verify() is False; reference: %s' %
                            (c.cid, '>'.join(c.via), sorted(c.signers), self.m, [v.reason if v else None for v in vs]))
            if ver and ref_enough and not ref_all:
                w.probe('verifies_but_node_rejects')

    # -- main loop --------------------------------------------------------------------------------------------
    def step(self):
        ch = self.ch
        if self.focus == 'C10':
            table = [('agree', 5), ('fund', 4), ('create', 6), ('sign', 7), ('handoff', 8), ('deliver', 3), ('send', 5),
                     ('mine', 1), ('tamper', 1), ('sign_round', 3), ('reopen', 2)]
        else:
            table = [('fund', 4), ('create', 6), ('sign', 7), ('handoff', 4), ('deliver', 1), ('tamper', 9), ('roundtrip', 5),
                     ('send', 2), ('mine', 1), ('tamper_wire', 5), ('sign_round', 4), ('grind', 2)]
        kind = ch.weighted('op', table)
        getattr(self, 'op_' + kind)()

    def finish(self):
        pass


def run(world):
    Copy._n = 0
    sim = Ceremony(world)
    world.debug_ns = {'sim': sim}
    sim.op_fund()
    while sim.ch.next_op():
        sim.step()
    sim.ch.tail_block()
    sim.finish()
