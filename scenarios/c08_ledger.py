"""C08 — wallet ledger stays consistent over any history and survives reopening (DESIGN.md 6, C08)."""
from scenarios.wallet_world import WalletWorld, init_worker, nontrivial, _STATE   # noqa: F401
from ref.txcodec import parse_tx


class C08World(WalletWorld):
    def sig(self, wi, handle, **kw):
        s = {'handle': handle}
        s.update(kw)
        return s

    def ledger_view(self, wi, h):
        """What one handle reports.  Returns dict or None when an observer failed."""
        if len(wi.account_ids) > 1:
            return self.ledger_view_accounts(wi, h)
        v = {}
        ok, b = self.observe(lambda: h.balance())
        if not ok:
            return {'error': 'balance(): %s: %s' % (type(b).__name__, b)}
        v['balance'] = b
        ok, us = self.observe(lambda: [(u['txid'], u['output_n'], u['value'], u['key_id']) for u in h.utxos()])
        if not ok:
            return {'error': 'utxos(): %s: %s' % (type(us).__name__, us)}
        v['utxos'] = us
        ok, ks = self.observe(lambda: [(k.id, k.balance, k.depth) for k in h.keys(network=self.network)])
        if not ok:
            return {'error': 'keys(): %s: %s' % (type(ks).__name__, ks)}
        v['keys'] = ks
        ok, wk = self.observe(lambda: [(kid, h.key(kid).balance()) for kid, _, _ in ks])
        if not ok:
            return {'error': 'key().balance(): %s: %s' % (type(wk).__name__, wk)}
        v['wkeys'] = wk
        return v

    def ledger_view_accounts(self, wi, h):
        """Several accounts: the same view per account (what carries the totals is the view of all accounts together),
        plus what the argument-less calls report (they speak for the default account)."""
        v = {'balance': 0, 'utxos': [], 'keys': [], 'wkeys': [], 'accounts': {}}
        # the argument-less call first: the per-account calls below refresh the cached totals it reads
        ok, b = self.observe(lambda: h.balance())
        if not ok:
            return {'error': 'balance(): %s: %s' % (type(b).__name__, b)}
        v['default_balance'] = b
        for a in wi.account_ids:
            ok, b = self.observe(lambda: h.balance(account_id=a))
            if not ok:
                return {'error': 'balance(): %s: %s' % (type(b).__name__, b)}
            ok, us = self.observe(lambda: [(u['txid'], u['output_n'], u['value'], u['key_id'])
                                           for u in h.utxos(account_id=a)])
            if not ok:
                return {'error': 'utxos(): %s: %s' % (type(us).__name__, us)}
            ok, ks = self.observe(lambda: [(k.id, k.balance, k.depth, k.address)
                                           for k in h.keys(account_id=a, network=self.network) if k.depth >= 3])
            if not ok:
                return {'error': 'keys(): %s: %s' % (type(ks).__name__, ks)}
            for k in ks:
                v.setdefault('addr_account', {})[k[3]] = a
            ks = [k[:3] for k in ks]
            ok, wk = self.observe(lambda: [(kid, h.key(kid).balance()) for kid, _, _ in ks])
            if not ok:
                return {'error': 'key().balance(): %s: %s' % (type(wk).__name__, wk)}
            v['accounts'][a] = {'balance': b, 'utxos': us, 'keys': ks, 'wkeys': wk}
            v['balance'] += b
            v['utxos'] += us
            v['keys'] += ks
            v['wkeys'] += wk
        return v

    def check_view(self, wi, v, handle):
        w = self.w
        if 'accounts' in v:
            for a, va in sorted(v['accounts'].items()):
                su = sum(x[2] for x in va['utxos'])
                sk = sum((x[1] or 0) for x in va['keys'])
                swk = sum((x[1] or 0) for x in va['wkeys'])
                if not (va['balance'] == su == sk == swk):
                    # a transaction is booked to ONE account; when it pays keys of two accounts of the wallet, the
                    # outputs of the other account's keys are listed (and counted) under the booking account
                    own = {x[0] for x in va['keys']}
                    foreign = [u for u in va['utxos'] if u[3] not in own]
                    elsewhere = [u for b_, vb in v['accounts'].items() if b_ != a for u in vb['utxos'] if u[3] in own]
                    cause = 'other'
                    if foreign or elsewhere:
                        # ... which is the recorded limitation only for a transaction that really pays two accounts
                        from ref import codec as rcodec
                        cause = 'output_booked_to_other_account'
                        for u in foreign + elsewhere:
                            c = self.chain.txs.get(u[0])
                            paid = set()
                            # accounts the transaction touches: keys it pays and keys it spends from
                            for spk in ([o.script_pubkey for o in c.tx.vout] + list(c.in_scripts) if c else []):
                                try:
                                    ad = rcodec.script_to_address(spk, self.network)
                                except Exception:
                                    ad = None
                                if ad in v.get('addr_account', {}):
                                    paid.add(v['addr_account'][ad])
                            if len(paid) < 2:
                                cause = 'single_account_transaction_booked_to_another_account'
                    w.violation('balance_ne_utxos' if va['balance'] != su else 'balance_ne_key_balances',
                                self.sig(wi, handle, accounts='several', cause=cause),
                                '%s account %d: balance(account_id) = %r, utxos(account_id) sum to %r, keys(account_id) '
                                'balances sum to %r, WalletKey.balance() to %r' % (wi.name, a, va['balance'], su, sk, swk))
            d = v['accounts'][wi.account_ids[0]]['balance']
            if v['default_balance'] != d:
                w.violation('balance_ne_utxos', self.sig(wi, handle, accounts='several', call='balance()'),
                            '%s: balance() = %r but the default account holds %r (balance(account_id=%d), utxos agree)' %
                            (wi.name, v['default_balance'], d, wi.account_ids[0]))
        b = v['balance']
        su = sum(x[2] for x in v['utxos'])
        if 'accounts' in v:
            b = su = None       # judged per account above
        elif b != su:
            w.violation('balance_ne_utxos', self.sig(wi, handle),
                        '%s: balance() = %r but utxos() sum to %r (%d utxos)' % (wi.name, b, su, len(v['utxos'])))
        sk = sum((x[1] or 0) for x in v['keys'])
        if b is not None and b != sk:
            w.violation('balance_ne_key_balances', self.sig(wi, handle),
                        '%s: balance() = %r but keys()[*].balance sum to %r; per key %s, utxos per key %s' %
                        (wi.name, b, sk, [(x[0], x[1]) for x in v['keys'] if x[1]],
                         sorted((u[3], u[2]) for u in v['utxos'])))
        swk = sum((x[1] or 0) for x in v['wkeys'])
        if b is not None and b != swk:
            w.violation('balance_ne_walletkey_balances', self.sig(wi, handle),
                        '%s: balance() = %r but WalletKey.balance() sum to %r: %s' %
                        (wi.name, b, swk, [x for x in v['wkeys'] if x[1]]))
        listed = {(x[0], x[1]) for x in v['utxos']}
        again = [op for op in wi.acked_spent if op in listed]
        if again:
            op = again[0]
            w.violation('sent_output_listed_unspent', self.sig(wi, handle),
                        '%s: output %s:%d was consumed by acknowledged send %s but utxos() lists it' %
                        (wi.name, op[0][:16], op[1], wi.acked_spent[op][0][:16]))
        if len(listed) != len(v['utxos']):
            w.violation('utxo_listed_twice', self.sig(wi, handle), '%s: utxos() lists an outpoint twice' % wi.name)

    def check_select_inputs(self, wi, h, handle):
        if not wi.acked_spent:
            return
        ok, ins = self.observe(lambda: h.select_inputs(1000, min_confirms=0))
        if not ok or not ins:
            return
        for i in ins:
            op = (i.prev_txid.hex(), i.output_n_int)
            if op in wi.acked_spent:
                self.w.violation('sent_output_selected_again', self.sig(wi, handle),
                                 '%s: select_inputs() offers %s:%d, consumed by acknowledged send %s' %
                                 (wi.name, op[0][:16], op[1], wi.acked_spent[op][0][:16]))

    def check_reload(self, wi, h, handle):
        """Stored transactions reload with the same id, inputs, outputs, amounts and serialization."""
        w = self.w
        for txid in sorted(wi.sent):
            c = self.chain.txs[txid]
            ok, t = self.observe(lambda: h.transaction(txid))
            if not ok:
                w.violation('reload_failed', self.sig(wi, handle), '%s: transaction(%s) raised %r' %
                            (wi.name, txid[:16], t))
            if t is None:
                w.violation('stored_transaction_missing', self.sig(wi, handle),
                            '%s: acknowledged send %s is not in the wallet' % (wi.name, txid[:16]))
            ref = c.tx
            if t.txid != txid:
                w.violation('reload_mismatch', self.sig(wi, handle, field='txid'), '%s != %s' % (t.txid, txid))
            ins = [(i.prev_txid.hex(), i.output_n_int, i.value, i.sequence) for i in t.inputs]
            want = [(v.prev_txid_hex(), v.vout, c.in_values[k], v.sequence) for k, v in enumerate(ref.vin)]
            if ins != want:
                w.violation('reload_mismatch', self.sig(wi, handle, field='inputs'),
                            '%s: %s inputs reload as %s, broadcast %s' % (wi.name, txid[:16], ins, want))
            outs = [(o.value, bytes(o.lock_script).hex(), o.output_n) for o in t.outputs]
            wanto = [(o.value, o.script_pubkey.hex(), n) for n, o in enumerate(ref.vout)]
            if sorted(outs, key=lambda x: x[2]) != wanto:
                w.violation('reload_mismatch', self.sig(wi, handle, field='outputs'),
                            '%s: %s outputs reload as %s, broadcast %s' % (wi.name, txid[:16], outs, wanto))
            if t.fee != c.fee:
                w.violation('reload_mismatch', self.sig(wi, handle, field='fee'),
                            '%s: %s fee reloads as %r, broadcast %r' % (wi.name, txid[:16], t.fee, c.fee))
            ok, raw = self.observe(lambda: t.raw_hex())
            if not ok or raw != c.raw.hex():
                w.violation('reload_mismatch', self.sig(wi, handle, field='raw', wallet_kind=wi.kind, witness=wi.wt),
                            '%s: %s serialization after reload differs from the broadcast bytes: %s vs %s' %
                            (wi.name, txid[:16], raw if ok else repr(raw), c.raw.hex()))
            w.probe('reload_checked')

    def check_reload_incoming(self, wi, h, handle):
        """Transactions the wallet stored from the network (not its own sends): once stored completely they reload with
        the id, version, locktime, inputs and outputs of the chain's transaction."""
        w = self.w
        ok, rows = self.observe(lambda: [(t.txid, t.status) for t in h.transactions(include_new=True)])
        if not ok:
            return
        n = 0
        for txid, status in rows:
            c = self.chain.txs.get(txid)
            if c is None or txid in wi.sent or txid in wi.unacked or n >= 6:
                continue        # (unacked: a send of this wallet that was interrupted - its storing never completed)
            ok, t = self.observe(lambda: h.transaction(txid))
            if not ok or t is None:
                continue
            if len(t.inputs) != len(c.tx.vin) or len(t.outputs) != len(c.tx.vout):
                w.probe('stored_incomplete')        # utxo_add / utxos_update keep only the outputs they were told about
                continue
            n += 1
            sig = self.sig(wi, handle, origin='network')
            if t.version_int != c.tx.version:
                w.violation('reload_mismatch', dict(sig, field='version'),
                            '%s: %s version reloads as %r, on chain %r' % (wi.name, txid[:16], t.version_int, c.tx.version))
            if (t.locktime or 0) != c.tx.locktime:
                w.violation('reload_mismatch', dict(sig, field='locktime'),
                            '%s: %s locktime reloads as %r, on chain %r' % (wi.name, txid[:16], t.locktime, c.tx.locktime))
            ins = [(i.prev_txid.hex(), i.output_n_int, i.sequence) for i in t.inputs]
            want = [(v.prev_txid_hex(), v.vout, v.sequence) for v in c.tx.vin]
            if ins != want:
                w.violation('reload_mismatch', dict(sig, field='inputs'),
                            '%s: %s inputs reload as %s, on chain %s' % (wi.name, txid[:16], ins, want))
            outs = sorted([(o.output_n, o.value, bytes(o.lock_script).hex()) for o in t.outputs])
            wanto = [(k, o.value, o.script_pubkey.hex()) for k, o in enumerate(c.tx.vout)]
            if outs != wanto:
                w.violation('reload_mismatch', dict(sig, field='outputs'),
                            '%s: %s outputs reload as %s, on chain %s' % (wi.name, txid[:16], outs, wanto))
            ok, raw = self.observe(lambda: t.raw_hex())
            if not ok or raw != c.raw.hex():
                # the wallet gives every transaction the (non-)segwit form of its own witness type
                follows_wallet = c.tx.has_witness() != (wi.wt in ('segwit', 'p2sh-segwit'))
                w.violation('reload_mismatch', dict(sig, field='raw', cause='transaction_form_follows_wallet_type'
                                                    if follows_wallet else 'other'),
                            '%s: %s serialization after reload differs from the chain\'s bytes: %s vs %s' %
                            (wi.name, txid[:16], raw if ok else repr(raw), c.raw.hex()))
            w.probe('reload_incoming_checked')

    def check_wallet(self, wi, fresh):
        w = self.w
        h = self.H(wi)
        v = self.ledger_view(wi, h)
        if 'error' in v:
            w.probe('observer_failed_live')
            w.note('live observer failed: %s' % v['error'])
            lst = w.info.setdefault('observer_failure_samples', [])
            import re
            m = re.sub(r'[0-9a-f]{16,}|\d+', '#', v['error'])[:120]
            if m not in lst and len(lst) < 20:
                lst.append(m)
            exc = v['error'].split(': ')[1] if ': ' in v['error'] else ''
            if exc in ('AttributeError', 'TypeError', 'KeyError', 'IndexError', 'MultipleResultsFound', 'AssertionError'):
                # not a resource problem (lock, pending rollback after an injected fault): the open wallet can no
                # longer report its ledger
                w.violation('ledger_unreadable', {'handle': 'live', 'exc': exc, 'api': v['error'].split(':')[0]},
                            '%s: %s' % (wi.name, v['error']))
            v = None
        else:
            self.check_view(wi, v, 'live')
            self.check_select_inputs(wi, h, 'live')
            w.state_sig(wi.kind, wi.wt, len(v['utxos']) if len(v['utxos']) < 4 else 4, len(wi.handles),
                        len(wi.acked_spent) if len(wi.acked_spent) < 3 else 3, self.last_kind)
        if fresh or v is None:
            ok, f = self.observe(lambda: self.open_handle(wi))
            if not ok:
                w.violation('wallet_does_not_reopen', {'handle': 'fresh'}, '%s: %r' % (wi.name, f))
            vf = self.ledger_view(wi, f)
            if 'error' in vf and 'OperationalError' in vf['error'] and 'locked' in vf['error']:
                # another handle of this process sits on an open write transaction (an operation failed half-way);
                # that is a resource state, not the ledger: let those handles give up, then look again
                w.probe('fresh_handle_blocked_by_open_transaction')
                from sqlalchemy.orm import session as sa_session
                sa_session.close_all_sessions()     # also the sessions of cosigner child wallets
                self.close_handle(f)
                f = self.open_handle(wi)
                vf = self.ledger_view(wi, f)
            if 'error' in vf:
                w.violation('ledger_unreadable', {'handle': 'fresh'}, '%s: %s' % (wi.name, vf['error']))
            self.check_view(wi, vf, 'fresh')
            if v is not None:
                if v['balance'] != vf['balance'] or sorted(v['utxos']) != sorted(vf['utxos']):
                    w.violation('live_handle_disagrees_with_reopened', {'handle': 'live'},
                                '%s: live balance %r / %d utxos, reopened balance %r / %d utxos' %
                                (wi.name, v['balance'], len(v['utxos']), vf['balance'], len(vf['utxos'])))
            self.check_reload(wi, f, 'fresh')
            self.check_reload_incoming(wi, f, 'fresh')
            self.check_select_inputs(wi, f, 'fresh')
            self.close_handle(f)
            w.probe('fresh_handle_checked')
        if v is not None and self.ch.coin('reload_live', 0.3):
            self.check_reload(wi, h, 'live')

    last_kind = ''

    def after_op(self, kind, wi):
        self.last_kind = kind
        if not self.ch.coin('observe', 0.75):
            return
        fresh = self.ch.coin('fresh', 0.3)
        for x in self.wallets:
            self.check_wallet(x, fresh)

    def finish(self):
        self.w.op('final_check')
        for x in self.wallets:
            self.check_wallet(x, True)
        # second opinion of the reference node: no acknowledged send was ever in conflict
        for reason, txid in self.chain.rejected:
            if reason in ('txn-mempool-conflict', 'missing-inputs-spent'):
                self.w.probe('node_rejected_respend')


# ---------------------------------------------------------------------------------------------------------
# crash sweep: every crash point of one operation, enumerated (thorough tier arm 'crashsweep')

def run_sweep(world):
    import copy
    import os
    import random
    import shutil
    from simkit.chooser import Chooser
    from simkit.providers import CTX
    sim = C08World(world)
    world.debug_ns = {'sim': sim}
    # the sweep arm has no other fault source, so no relaxation can hide an ordinary bug
    sim.fault_rate = 0
    sim.db_fail_rate = 0
    sim.crash_enabled = False
    while sim.ch.next_op():
        sim.step()
    ch = sim.ch
    ch.tail_block()
    target = ch.weighted('sweep_target', [('send', 6), ('sweep', 3), ('update', 3), ('delete', 1), ('bumpfee', 1),
                                          ('new_key', 1), ('utxo_add', 2)])
    wi = sim.wallets[ch.index('sweep_wallet', len(sim.wallets))]
    mark = len(ch.blocks[-1])

    snapdir = os.path.join(world.scratch, 'snapshot')

    def snapshot():
        world.dirty_restart()
        for x in sim.wallets:
            x.handles = []
            x.pending = []
        shutil.rmtree(snapdir, ignore_errors=True)
        os.makedirs(snapdir)
        for f in os.listdir(world.scratch):
            if f.endswith('.sqlite'):
                shutil.copyfile(os.path.join(world.scratch, f), os.path.join(snapdir, f))
        st = {'chain': copy.deepcopy(sim.chain), 'now': world.clock.now, 'rnd': random.getstate(),
              'ent': world.entropy.counter,
              'models': [(dict(x.acked_spent), dict(x.sent), set(x.unacked), set(x.seen_txids)) for x in sim.wallets]}
        try:
            import numpy
            st['np'] = numpy.random.get_state()
        except ImportError:
            pass
        return st

    def restore(st):
        world.dirty_restart()
        for f in os.listdir(world.scratch):
            if f.endswith('.sqlite') or f.endswith('-journal') or f.endswith('-wal'):
                os.remove(os.path.join(world.scratch, f))
        for f in os.listdir(snapdir):
            shutil.copyfile(os.path.join(snapdir, f), os.path.join(world.scratch, f))
        sim.chain = copy.deepcopy(st['chain'])
        sim.chain.clock = world.clock
        CTX.chain = sim.chain
        world.clock.now = st['now']
        random.setstate(st['rnd'])
        world.entropy.counter = st['ent']
        if 'np' in st:
            import numpy
            numpy.random.set_state(st['np'])
        for x, (a, b, c, d) in zip(sim.wallets, st['models']):
            x.acked_spent, x.sent, x.unacked, x.seen_txids = dict(a), dict(b), set(c), set(d)
            x.handles = []
            x.pending = []
        sim.crash_in = None

    def execute(draws):
        """Run the target operation with a fixed list of draws (None: draw and record them)."""
        saved = sim.ch
        if draws is not None:
            sim.ch = Chooser(saved.seed, replay=[[], draws])
            sim.ch.next_op()
        try:
            getattr(sim, {'send': 'op_send', 'sweep': 'op_sweep', 'update': 'op_update', 'delete': 'op_delete',
                          'bumpfee': 'op_bumpfee', 'new_key': 'op_new_key', 'utxo_add': 'op_utxo_add'}[target])(wi)
        finally:
            sim.ch = saved

    st = snapshot()
    c0 = world.commit_points
    world.op('sweep_reference_execution', target=target, wallet=wi.name)
    sim.crash_enabled = True          # count only; crash_in stays None
    execute(None)
    draws = [d for d in ch.blocks[-1][mark:]]
    k = world.commit_points - c0
    # commit points counted by the hook include cache commits; crash points are wallet-database commits (2 phases each)
    windows = 0
    n_points = 0
    for j in range(1, min(2 * k, 80) + 1):
        restore(st)
        world.op('sweep_crash', target=target, j=j)
        sim.crash_in = j
        n_acc0 = len(sim.chain.accepted_broadcasts)
        execute(draws)
        crashed = sim.crash_in is None and world.faults.get('crash', 0) > n_points
        if sim.crash_in is not None:
            sim.crash_in = None
            break                      # the operation has fewer crash points than j
        n_points += 1
        if len(sim.chain.accepted_broadcasts) > n_acc0:
            windows += 1               # broadcast reached the network, the wallet never learned the outcome
        for x in sim.wallets:
            sim.check_wallet(x, True)
    world.info.setdefault('crash_sweeps', []).append({'operation': target, 'wallet_kind': wi.kind, 'witness': wi.wt,
                                                      'crash_points': n_points, 'exhaustive': True,
                                                      'broadcast_but_unacknowledged_points': windows})
    world.info['crash_sweep_points'] = world.info.get('crash_sweep_points', 0) + n_points
    world.info['crash_window_observations'] = world.info.get('crash_window_observations', 0) + windows
    world.probe('crash_sweep_done')


def run(world):
    if world.arm_params.get('arm') == 'crashsweep':
        return run_sweep(world)
    sim = C08World(world)
    world.debug_ns = {'sim': sim}
    while sim.ch.next_op():
        sim.step()
    sim.ch.tail_block()
    sim.finish()
