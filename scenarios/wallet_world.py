"""Wallet world (DESIGN.md 6: C08, C07, C09) — real Wallet / WalletTransaction / Service / Cache / SQLAlchemy / SQLite
over a SimChain with simulated providers, clock, entropy, storage faults (commit failure, crash + dirty restart),
several handles per database, scheduled garbage collection.

One scenario, three checks: arm_params['focus'] selects which property's oracles raise violations and which
operation mix is drawn.  Reference opinions come from /verif/ref only.
"""
import gc
import os

from simkit import providers as P
from simkit.providers import CTX
from simkit.simchain import SimChain, View
from simkit.world import StopRun, SimCrash
from ref import bip32 as rbip32, codec as rcodec, hashes as rhashes, secp256k1 as rec, script as rscript
from ref.txcodec import parse_tx

_STATE = {}
PURPOSE = {'legacy': 44, 'p2sh-segwit': 49, 'segwit': 84}
MS_ACCOUNT_PATH = {'legacy': "m/45'", 'p2sh-segwit': "m/48'/%d'/0'/1'", 'segwit': "m/48'/%d'/0'/2'"}
MS_FAMILY = {'legacy': 'legacy', 'p2sh-segwit': 'p2sh_p2wsh', 'segwit': 'p2wsh'}


# BIP39 test-vector sentences (valid checksums)
MNEMONICS = [
    'abandon abandon abandon abandon abandon abandon abandon abandon abandon abandon abandon about',
    'legal winner thank year wave sausage worth useful legal winner thank yellow',
    'letter advice cage absurd amount doctor acoustic avoid letter advice cage above',
    'zoo zoo zoo zoo zoo zoo zoo zoo zoo zoo zoo wrong',
]


def init_worker(datadir):
    _STATE['datadir'] = datadir
    P.install(datadir, [], 'bitcoin')


def nontrivial(res):
    n = sum(res['ops'].values())
    return n >= 5 and res['ops_ok'] >= 1


class WInfo:
    def __init__(self, name, kind, wt, network, db, cache):
        self.name, self.kind, self.wt, self.network, self.db, self.cache = name, kind, wt, network, db, cache
        self.handles = []
        self.cur = 0
        self.acked_spent = {}      # outpoint -> (spending txid, event seq of the acknowledgement)
        self.sent = {}             # txid -> {'raw': hex}   acknowledged broadcasts
        self.unacked = set()       # txids broadcast but not acknowledged to the wallet (lost reply / crash)
        self.seen_txids = set()    # every txid the wallet was told about (for reload checks)
        self.pending = []          # created, signed, not yet sent transactions (objects on a handle)
        self.m = self.n = 1
        self.ref = {}
        self.account_ids = [0]


class WalletWorld:
    def __init__(self, world):
        import bitcoinlib.wallets as BW
        import bitcoinlib.services.services as S
        from bitcoinlib.networks import Network
        self.BW, self.S = BW, S
        self.w = world
        self.ch = ch = world.ch
        self.focus = world.arm_params.get('focus', 'C08')
        self.tier = world.tier
        # ---- swarm configuration (block 0)
        nets = [('bitcoin', 5), ('testnet', 2), ('litecoin', 2)]
        if self.focus == 'C09':
            nets += [('bitcoinlib_test', 1), ('litecoin_testnet', 1)]
        self.network = ch.weighted('network', nets)
        self.netobj = Network(self.network)
        self.coin = rcodec.NETWORKS[self.network]['coin_type']
        self.k = ch.weighted('k', [(2, 3), (1, 1), (3, 2)])
        self.fault_rate = ch.weighted('frate', [(0.0, 4), (0.05, 3), (0.15, 3), (0.4, 1)])
        kinds = ['raise', 'false', 'stale', 'lost_reply']
        self.fault_kinds = [kinds[i] for i in ch.subset('fkinds', len(kinds), 0.5)] or ['raise']
        self.db_fail_rate = ch.weighted('dbfail', [(0.0, 6), (0.01, 2), (0.04, 1)])
        self.crash_enabled = ch.coin('crashes', 0.4)
        self.gc_enabled = ch.coin('gc', 0.5)
        self.multi_handle = ch.coin('multi_handle', 0.4)
        self.n_ops = ch.int('n_ops', 10, 36)
        ch.set_ops(self.n_ops)
        world.install(clock_start_offset=ch.int('clock0', 0, 10 ** 6), entropy_seed=ch.seed,
                      lib_seed=ch.int('libseed', 0, 2 ** 31))
        self.fault_free = not self.fault_rate and not self.db_fail_rate and not self.crash_enabled
        self.chain = SimChain(world.clock, start_height=ch.int('h0', 100, 800000))
        CTX.reset()
        CTX.world = world
        CTX.chain = self.chain
        CTX.network = self.network
        CTX.behave = self.behave
        CTX.views = {p: View(0, True) for p in range(self.k)}
        CTX.fee_base = {p: ch.pick('feebase', [20000, 6000, 150000, 2500]) for p in range(self.k)}
        P.write_providers_json(_STATE['datadir'], [{'pid': p, 'priority': 10} for p in range(self.k)], self.network)
        self.crash_in = None        # crash at the j-th crash point from now
        self.in_op = False
        self.quiet = False          # observers run without faults
        world.commit_hook = self.commit_hook
        self.ext_keys = []
        self.wallets = []
        self.make_wallets()
        world.log.ev('config', network=self.network, k=self.k, frate=self.fault_rate, fkinds=self.fault_kinds,
                     dbfail=self.db_fail_rate, crash=self.crash_enabled, focus=self.focus,
                     wallets=[(x.name, x.kind, x.wt) for x in self.wallets])

    # -- seams ------------------------------------------------------------------------------------------
    def behave(self, pid, method, args):
        ch = self.ch
        if self.quiet or not self.fault_rate or not self.in_op:
            return ('ok', None)
        if not ch.coin('pf', self.fault_rate):
            return ('ok', None)
        kind = ch.pick('pfk', self.fault_kinds)
        if kind == 'raise':
            return ('raise', ch.pick('pfe', ['ClientError', 'ReadTimeout', 'ConnectionError']))
        if kind == 'false':
            return ('false', None)
        if kind == 'stale':
            return ('stale', {'lag': ch.int('pfl', 1, 2), 'mempool': ch.coin('pfm', 0.5)})
        if kind == 'lost_reply':
            if method != 'sendrawtransaction':
                return ('raise', 'ReadTimeout')
            return ('lost_reply', None)
        return ('ok', None)

    def commit_hook(self, session, phase):
        if self.quiet or not self.in_op:
            return
        fn = self.w.session_file(session)
        if 'cache' in fn:
            return
        ch = self.ch
        if self.crash_in is not None:
            self.crash_in -= 1
            if self.crash_in <= 0:
                self.crash_in = None
                self.w.fault('crash', phase=phase, file=fn)
                raise SimCrash()
        if phase == 'before' and self.db_fail_rate and ch.coin('dbf', self.db_fail_rate):
            import sqlalchemy.exc
            self.w.fault('db_commit_fail', file=fn)
            raise sqlalchemy.exc.OperationalError('COMMIT', {}, Exception(
                ch.pick('dbmsg', ['database is locked', 'database or disk is full'])))

    # -- wallets ------------------------------------------------------------------------------------------
    def xprv(self, node):
        return node.ser_private(rcodec.NETWORKS[self.network]['xkeys']['legacy'][1])

    def make_wallets(self):
        ch = self.ch
        n = ch.weighted('n_wallets', [(1, 3), (2, 2)])
        same_db = ch.coin('same_db', 0.5)
        for i in range(n):
            kind = ch.weighted('kind', [('hd', 6), ('single', 2), ('ms', 3)])
            wt = ch.pick('wt', ['segwit', 'p2sh-segwit', 'legacy'])
            db = os.path.join(self.w.scratch, 'wallet%d.sqlite' % (0 if same_db else i))
            cache = os.path.join(self.w.scratch, 'cache.sqlite')
            wi = WInfo('w%d_%s' % (i, kind), kind, wt, self.network, db, cache)
            self.create_wallet(wi, i)
            self.wallets.append(wi)
        if self.focus == 'C08' and ch.coin('second_account', 0.3):
            # HD wallets get a second account: every ledger clause then has to hold per account
            for wi in self.wallets:
                if wi.kind == 'hd':
                    h = self.H(wi)
                    acc = h.new_account()
                    wi.account_ids.append(acc.account_id)
        # an external recipient (never a wallet key)
        for j in range(3):
            priv = int.from_bytes(rhashes.sha256(b'external %d' % j), 'big') % (rec.N - 1) + 1
            pub = rec.pub_from_priv(priv, True)
            addr = [rcodec.p2wpkh_address, rcodec.p2pkh_address, rcodec.p2sh_p2wpkh_address][j](pub, self.network)
            self.ext_keys.append(addr)

    def create_wallet(self, wi, i):
        BW = self.BW
        self.w.op('create_wallet', name=wi.name, kind=wi.kind, wt=wi.wt)
        tag = b'%d/%d' % (self.ch.seed % 1000003, i)
        if wi.kind == 'hd' and self.focus == 'C09' and self.ch.coin('from_mnemonic', 0.3):
            # wallet from a BIP39 sentence (+ optional passphrase); the reference seed is PBKDF2 from the standard
            import hashlib
            import unicodedata
            words = MNEMONICS[self.ch.index('mnemonic', len(MNEMONICS))]
            # ASCII passphrases only: Mnemonic.to_seed() does not NFKD-normalise the passphrase as BIP39 says, which is
            # a matter of C14 (not applicable here), not of wallet key paths
            pw = self.ch.pick('mnemonic_pw', ['', 'TREZOR', 'correct horse', 'x'])
            seed = hashlib.pbkdf2_hmac('sha512', unicodedata.normalize('NFKD', words).encode(),
                                       ('mnemonic' + unicodedata.normalize('NFKD', pw)).encode(), 2048, 64)
            master = rbip32.RefHDNode.from_seed(seed)
            wi.ref['master'] = master
            wi.ref['mnemonic'] = (words, pw)
            w = BW.Wallet.create(wi.name, keys=words, password=pw, network=self.network, witness_type=wi.wt,
                                 db_uri=wi.db, db_cache_uri=wi.cache)
        elif wi.kind == 'hd':
            master = rbip32.RefHDNode.from_seed(rhashes.sha256(b'hd seed ' + tag))
            wi.ref['master'] = master
            w = BW.Wallet.create(wi.name, keys=self.xprv(master), network=self.network, witness_type=wi.wt,
                                 db_uri=wi.db, db_cache_uri=wi.cache)
        elif wi.kind == 'single':
            priv = int.from_bytes(rhashes.sha256(b'single ' + tag), 'big') % (rec.N - 1) + 1
            wi.ref['priv'] = priv
            wif = rcodec.wif_encode(priv, True, rcodec.NETWORKS[self.network]['wif'])
            w = BW.Wallet.create(wi.name, keys=wif, network=self.network, witness_type=wi.wt, scheme='single',
                                 db_uri=wi.db, db_cache_uri=wi.cache)
        else:
            wi.n = self.ch.pick('ms_n', [3, 2])
            wi.m = self.ch.int('ms_m', 1, wi.n)
            masters = [rbip32.RefHDNode.from_seed(rhashes.sha256(b'ms seed %d ' % j + tag)) for j in range(wi.n)]
            wi.ref['masters'] = masters
            acc_path = MS_ACCOUNT_PATH[wi.wt]
            if '%d' in acc_path:
                acc_path = acc_path % self.coin
            wi.ref['acc_path'] = acc_path
            n_priv = max(wi.m, self.ch.int('ms_npriv', wi.m, wi.n))
            keys = []
            for j, mk in enumerate(masters):
                if j < n_priv:
                    keys.append(self.xprv(mk))
                else:
                    fam = MS_FAMILY[wi.wt]
                    keys.append(mk.derive(acc_path).neuter().ser_public(rcodec.NETWORKS[self.network]['xkeys'][fam][0]))
            wi.ref['n_priv'] = n_priv
            w = BW.Wallet.create(wi.name, keys=keys, sigs_required=wi.m, network=self.network, witness_type=wi.wt,
                                 cosigner_id=0, db_uri=wi.db, db_cache_uri=wi.cache)
        wi.handles = [w]
        wi.cur = 0
        self.w.outcome('created', wallet=wi.name)
        if self.ch.coin('prefund', 0.75):
            # fault-free initial funding so most histories start with something to spend
            self.quiet = True
            try:
                addrs = self.wallet_addresses(wi)
                if not addrs:
                    addrs = [w.get_key().address]
                outs = [(self.script_of(addrs[self.ch.index('pf_addr', len(addrs))]),
                         self.ch.pick('pf_v', [5000000, 100000, 40000000, 250000, 12345678]))
                        for _ in range(self.ch.int('pf_n', 1, 4))]
                self.chain.fund(outs)
                self.chain.mine()
                how = self.ch.pick('pf_how', ['utxos_update', 'transactions_update', 'scan'])
                getattr(w, how)()
            finally:
                self.quiet = False

    def H(self, wi):
        """Current handle of a wallet (re)opened on demand."""
        if not wi.handles:
            wi.handles = [self.open_handle(wi)]
            wi.cur = 0
        wi.cur %= len(wi.handles)
        return wi.handles[wi.cur]

    def open_handle(self, wi):
        return self.BW.Wallet(wi.name, db_uri=wi.db, db_cache_uri=wi.cache)

    def close_handle(self, h):
        try:
            h.session.close()
        except Exception:
            pass

    # -- guarded library call -------------------------------------------------------------------------------
    def call(self, wi, label, fn):
        """Run a library call as one operation: faults may fire inside; exceptions are outcomes; a crash restarts."""
        w = self.w
        self.in_op = True
        try:
            r = fn()
            w.ops_ok += 1
            return True, r
        except StopRun:
            raise
        except SimCrash:
            self.in_op = False
            w.outcome('crashed', op=label)
            self.after_crash()
            return False, 'crash'
        except Exception as e:
            self.in_op = False
            w.outcome('raised', op=label, exc=type(e).__name__, msg=str(e)[:140])
            w.probe('lib_exception:%s' % type(e).__name__)
            lst = w.info.setdefault('lib_exception_samples', [])
            import re
            m = '%s/%s: %s' % (label, type(e).__name__, re.sub(r'[0-9a-f]{16,}|\d+', '#', str(e))[:90])
            if m not in lst and len(lst) < 40:
                lst.append(m)
            # a failed commit leaves the session needing rollback; the library does that in _commit
            return False, e
        finally:
            self.in_op = False

    def after_crash(self):
        """Dirty restart: only committed SQLite transactions survive; every handle is gone."""
        self.w.dirty_restart()
        for wi in self.wallets:
            wi.handles = []
            wi.pending = []
        gc.collect()

    # -- helpers ----------------------------------------------------------------------------------------------
    def script_of(self, address):
        return rcodec.address_to_script(address, self.network)

    def wallet_addresses(self, wi):
        h = self.H(wi)
        return h.addresslist(depth=-1) if wi.kind == 'single' else h.addresslist(network=self.network)

    def acct(self, wi):
        """{} for single-account wallets (calls keep their default form), else {'account_id': a} for a drawn account."""
        if len(wi.account_ids) < 2:
            return {}
        return {'account_id': wi.account_ids[self.ch.index('acct', len(wi.account_ids))]}

    def pick_wallet(self):
        return self.wallets[self.ch.index('wallet', len(self.wallets))]

    # -- operations -------------------------------------------------------------------------------------------
    def op_new_key(self, wi):
        how = self.ch.pick('keyop', ['new_key', 'get_key', 'new_key_change', 'get_keys', 'get_key_change'])
        acc = self.acct(wi)
        self.w.op(how, wallet=wi.name, **acc)
        h = self.H(wi)
        if how == 'get_keys':
            n = self.ch.int('nkeys', 1, 4)
            ok, r = self.call(wi, how, lambda: h.get_keys(number_of_keys=n, **acc))
        else:
            ok, r = self.call(wi, how, lambda: getattr(h, how)(**acc))
        if ok:
            ks = r if isinstance(r, list) else [r]
            self.w.outcome('keys', paths=[k.path for k in ks], addrs=[k.address for k in ks])
            self.after_keys(wi, how, ks)

    def after_keys(self, wi, how, ks):
        pass

    def op_fund(self, wi):
        ch = self.ch
        ok, addrs = self.call(wi, 'addresslist', lambda: self.wallet_addresses(wi))
        if not ok or not addrs:
            return
        if self.focus == 'C07' and ch.coin('aged_shape', 0.25):
            # several equal, well confirmed coins that must be combined + one fresh coin that would suffice alone
            a = addrs[ch.index('fund_addr', len(addrs))]
            v = ch.pick('aged_v', [60000000, 600000, 6000000])
            self.w.op('fund_aged_shape', wallet=wi.name, value=v)
            self.chain.fund([(self.script_of(a), v), (self.script_of(a), v)])
            for _ in range(ch.int('aged_blocks', 3, 8)):
                self.chain.mine()
            self.chain.fund([(self.script_of(addrs[ch.index('fund_addr2', len(addrs))]), v * 3 + v // 3)])
            if ch.coin('fresh_confirmed', 0.7):
                self.chain.mine()
            h = self.H(wi)
            self.call(wi, 'utxos_update', lambda: h.utxos_update())
            return
        n = ch.int('nfund', 1, 3)
        outs = []
        for _ in range(n):
            a = addrs[ch.index('fund_addr', len(addrs))]
            v = ch.pick('fund_v', [100000, 5000000, 250000, 12345678, 999, 40000000, 546, 3000])
            outs.append((self.script_of(a), v))
        shape = self.tx_shape()
        self.w.op('fund', wallet=wi.name, n=n, values=[v for _, v in outs], **shape)
        txid = self.chain.fund(outs, **shape)
        if ch.coin('fund_mine', 0.6):
            self.chain.mine()
        self.w.outcome('funded', txid=txid[:16])

    def tx_shape(self):
        """Version / locktime / sequence of an incoming transaction (what other wallets send looks like this too)."""
        ch = self.ch
        shape = {}
        if ch.coin('in_v1', 0.25):
            shape['version'] = 1
        if ch.coin('in_locktime', 0.3):
            shape['locktime'] = self.chain.tip
            shape['sequence'] = 0xfffffffe
        elif ch.coin('in_sequence', 0.25):
            shape['sequence'] = ch.pick('in_seq', [0, 0xfffffffd, 5])
            if shape.get('version') == 1 and shape['sequence'] == 5:
                # (Transaction.add_input - which every provider client uses to build its answer - turns a version 1
                # transaction with a relative-locktime sequence into version 2: what reaches the wallet is not the
                # chain's transaction any more, a matter of the clients, not of the ledger)
                shape['sequence'] = 0
        if self.focus == 'C08' and ch.coin('in_legacy', 0.25):
            shape['legacy'] = True      # the sender spends a legacy (P2PKH) output: no witness data in the transaction
        return shape

    def op_mine(self):
        self.w.op('mine')
        b = self.chain.mine()
        self.w.outcome('block', height=b.height, n=len(b.txids))

    def op_advance(self):
        dt = self.ch.pick('dt', [5, 61, 601, 86400])
        self.w.op('advance', dt=dt)
        self.w.clock.advance(dt)

    def op_update(self, wi):
        ch = self.ch
        how = ch.weighted('upd', [('utxos_update', 4), ('transactions_update', 3), ('scan', 2), ('utxos_update_norescan', 2),
                                  ('transactions_update_by_txids', 1)])
        acc = self.acct(wi)
        self.w.op(how, wallet=wi.name, **acc)
        h = self.H(wi)
        if how == 'utxos_update':
            ok, r = self.call(wi, how, lambda: h.utxos_update(**acc))
        elif how == 'utxos_update_norescan':
            ok, r = self.call(wi, how, lambda: h.utxos_update(rescan_all=False, **acc))
        elif how == 'transactions_update':
            ok, r = self.call(wi, how, lambda: h.transactions_update(**acc))
        elif how == 'scan':
            gap = ch.pick('gap', [2, 3, 5])
            ok, r = self.call(wi, how, lambda: h.scan(scan_gap_limit=gap, **acc))
        else:
            ids = sorted(wi.seen_txids | set(wi.sent))
            if not ids:
                return
            sel = [ids[ch.index('bytxid', len(ids))]]
            ok, r = self.call(wi, how, lambda: h.transactions_update_by_txids(sel))
        if ok:
            self.w.outcome('updated', n=r if isinstance(r, (int, bool)) or r is None else str(r))

    def op_utxo_add(self, wi):
        """utxo_add mirroring a real chain output (so the reference node can judge later spends)."""
        ch = self.ch
        ok, addrs = self.call(wi, 'addresslist', lambda: self.wallet_addresses(wi))
        if not ok or not addrs:
            return
        a = addrs[ch.index('ua_addr', len(addrs))]
        v = ch.pick('ua_v', [100000, 2000000, 700, 50000000])
        txid = self.chain.fund([(self.script_of(a), v)], **self.tx_shape())
        self.chain.mine()
        n = [i for i, o in enumerate(self.chain.txs[txid].tx.vout) if o.script_pubkey == self.script_of(a)][0]
        self.w.op('utxo_add', wallet=wi.name, value=v, txid=txid[:16], n=n)
        h = self.H(wi)
        conf = ch.pick('ua_conf', [1, 0, 10])
        ok, r = self.call(wi, 'utxo_add', lambda: h.utxo_add(a, v, txid, n, confirmations=conf))
        if ok:
            self.w.outcome('added', n=r)

    def recipient(self, wi):
        ch = self.ch
        kind = ch.weighted('rcpt', [('external', 5), ('own', 2), ('other', 2)])
        if kind == 'own':
            ok, addrs = self.call(wi, 'addresslist', lambda: self.wallet_addresses(wi))
            if ok and addrs:
                return addrs[ch.index('rcpt_i', len(addrs))]
        if kind == 'other' and len(self.wallets) > 1:
            other = [x for x in self.wallets if x is not wi][0]
            ok, addrs = self.call(other, 'addresslist', lambda: self.wallet_addresses(other))
            if ok and addrs:
                return addrs[ch.index('rcpt_i', len(addrs))]
        return self.ext_keys[ch.index('rcpt_e', len(self.ext_keys))]

    def spendable(self, wi, min_conf=0, acc=None):
        h = self.H(wi)
        ok, u = self.call(wi, 'utxos', lambda: h.utxos(min_confirms=min_conf, **(acc or {})))
        return u if ok else []

    def op_send(self, wi):
        ch = self.ch
        if len(wi.account_ids) > 1 and ch.coin('sweep_instead', 0.3):
            return self.op_sweep(wi)        # emptying one of two accounts is the interesting case there
        h = self.H(wi)
        min_conf = ch.pick('minconf', [1, 0, 0, 0, 2] if self.focus != 'C07' else [1, 0, 0, 2, 3, 6])
        acc = self.acct(wi)
        self.quiet = True
        try:
            us = self.spendable(wi, min_conf, acc)
        finally:
            self.quiet = False
        total = sum(u['value'] for u in us)
        n_out = ch.weighted('n_out', [(1, 6), (2, 2), (3, 1)])
        outs = []
        for _ in range(n_out):
            pct = ch.pick('pct', [10, 40, 1, 70, 25, 95, 5, 100, 60, 120])
            amt = max(600, total * pct // 100 // n_out) if total else ch.pick('amt0', [1000, 100000])
            outs.append((self.recipient(wi), amt))
        fee = ch.weighted('fee', [(None, 5), (1000, 2), (5000, 1), ('low', 1), ('high', 1), (0, 1)])
        broadcast = ch.coin('broadcast', 0.75)
        rbf = ch.coin('rbf', 0.2)
        nco = ch.weighted('nco', [(1, 6), (0, 2 if self.focus != 'C07' else 5), (2, 2), (3, 1)])
        extra = {}
        outs_arg = list(outs)
        self.request_extra = {}
        if self.focus == 'C07':
            # the same request in the other forms the API accepts, and the optional selection constraints
            form = ch.weighted('amt_form', [('int', 5), ('value', 2), ('str', 2)])
            aform = ch.weighted('addr_form', [('str', 6), ('address_obj', 2)])
            from decimal import Decimal
            from bitcoinlib.values import Value
            from bitcoinlib.keys import Address
            code = self.netobj.currency_code

            def amt_f(v):
                if form == 'value':
                    return Value.from_satoshi(v, network=self.network)
                if form == 'str':
                    return '%s %s' % (Decimal(v) / Decimal(10 ** 8), code)
                return v

            def addr_f(a):
                return Address.parse(a, network=self.network) if aform == 'address_obj' else a
            outs_arg = [(addr_f(a), amt_f(v)) for a, v in outs]
            mu = ch.weighted('max_utxos', [(None, 6), (1, 1), (2, 1), (5, 1)])
            if mu is not None:
                extra['max_utxos'] = mu
            if us and ch.coin('input_key_id', 0.15):
                extra['input_key_id'] = us[ch.index('ikid', len(us))]['key_id']
            if ch.coin('fixed_order', 0.3):
                extra['random_output_order'] = False
            lt = ch.weighted('locktime', [(0, 8), ('tip', 1)])
            if lt == 'tip':
                extra['locktime'] = self.chain.tip
            self.request_extra = dict(extra, amt_form=form, addr_form=aform)
            if ch.coin('input_arr', 0.3):
                # explicit input list: (txid, output_n, key_id, value) tuples the caller picked
                self.quiet = True
                try:
                    all_us = self.spendable(wi, 0, acc)
                finally:
                    self.quiet = False
                need = sum(v for _, v in outs)
                tup = lambda u: (u['txid'], u['output_n'], u['key_id'], u['value'])
                ia_kind = ch.pick('ia_kind', ['valid', 'valid', 'short', 'rich', 'dup', 'dup', 'spent'])
                order = [all_us[i] for i in ch.perm('ia_order', len(all_us))] if all_us else []
                ia = None
                if ia_kind in ('valid', 'dup'):
                    pick, tot = [], 0
                    for u in order:
                        pick.append(u)
                        tot += u['value']
                        if tot >= need + 30000:
                            break
                    if pick and tot >= need + 30000:
                        ia = [tup(u) for u in pick]
                        if ia_kind == 'dup':
                            ia.append(ia[0])
                elif ia_kind == 'short':
                    small = sorted(order, key=lambda u: u['value'])[:1]
                    if small and small[0]['value'] < need:
                        ia = [tup(small[0])]
                elif ia_kind == 'rich':
                    big = sorted(order, key=lambda u: -u['value'])[:1]
                    if big and big[0]['value'] > need * 3 + 100000:
                        ia = [tup(big[0])]
                else:
                    gone = sorted(op_ for op_ in wi.acked_spent if op_ in self.chain.outs)
                    if gone:
                        g = gone[ch.index('ia_spent', len(gone))]
                        ia = [(g[0], g[1])] + [tup(u) for u in order[:1]]
                if ia:
                    # the forms the documentation allows for an entry: a full tuple, (txid, output_n) only, or an Input
                    # object (what select_inputs() returns)
                    ia_form = ch.pick('ia_form', ['tuple', 'tuple', 'short', 'object', 'mixed'])
                    if wi.kind == 'ms' and ia_form in ('object', 'mixed'):
                        ia_form = 'short'
                    if ia_form != 'tuple':
                        from bitcoinlib.transactions import Input as _Input
                        by_op = {(u['txid'], u['output_n']): u for u in all_us}
                        par = ch.int('ia_par', 0, 1)
                        conv = []
                        for n_, e in enumerate(ia):
                            u = by_op.get((e[0], e[1]))
                            if ia_form == 'short' or u is None or len(e) < 4:
                                conv.append(tuple(e[:2]))
                            elif ia_form == 'object' or (n_ + par) % 2 == 0:
                                conv.append(_Input(prev_txid=u['txid'], output_n=u['output_n'], value=u['value'],
                                                   address=u['address'], witness_type=wi.wt, network=wi.network))
                            else:
                                conv.append(e)
                        ia = conv
                    extra['input_arr'] = ia
                    extra.pop('max_utxos', None)
                    extra.pop('input_key_id', None)
                    self.request_extra = dict(self.request_extra, input_arr=ia_kind, n_explicit=len(ia), ia_form=ia_form)
                    self.request_extra.pop('max_utxos', None)
                    self.request_extra.pop('input_key_id', None)
                    us = all_us      # what is eligible for an explicit list: any unspent output of the wallet
        self.w.op('send', wallet=wi.name, outs=[(a[:14], v) for a, v in outs], fee=fee, broadcast=broadcast,
                  min_confirms=min_conf, rbf=rbf, nco=nco, total=total, extra={k: str(v) for k, v in self.request_extra.items()},
                  **acc)
        extra.update(acc)
        seq0 = self.w.log.seq
        n_acc0 = len(self.chain.accepted_broadcasts)
        if n_out == 1 and ch.coin('send_to', 0.5) and 'max_utxos' not in extra and 'input_arr' not in extra:
            fn = lambda: h.send_to(outs_arg[0][0], outs_arg[0][1], fee=fee, min_confirms=min_conf, broadcast=broadcast,
                                   replace_by_fee=rbf, number_of_change_outputs=nco,
                                   **{k: v for k, v in extra.items() if k in ('input_key_id', 'random_output_order', 'locktime',
                                                                                'account_id')})
        else:
            fn = lambda: h.send(outs_arg, fee=fee, min_confirms=min_conf, broadcast=broadcast, replace_by_fee=rbf,
                                number_of_change_outputs=nco, **extra)
        ok, t = self.call(wi, 'send', fn)
        self.after_send(wi, h, ok, t, broadcast, outs, fee, min_conf, seq0, n_acc0, us, request='send', nco=nco)

    def op_sweep(self, wi):
        ch = self.ch
        h = self.H(wi)
        min_conf = ch.pick('minconf', [1, 0])
        acc = self.acct(wi)
        self.quiet = True
        try:
            us = self.spendable(wi, min_conf, acc)
        finally:
            self.quiet = False
        to = self.recipient(wi)
        multi = ch.coin('sweep_multi', 0.3)
        total = sum(u['value'] for u in us)
        if multi and total > 20000:
            to_arg = [(to, total // 3), (self.ext_keys[0], 0)]
        else:
            to_arg = to
        fee = ch.weighted('sfee', [(None, 4), (2000, 1), ('low', 1)])
        fpk = ch.weighted('fpk', [(None, 4), (3000, 1), (50000, 1)])
        broadcast = ch.coin('broadcast', 0.7)
        self.w.op('sweep', wallet=wi.name, to=str(to_arg)[:60], fee=fee, fee_per_kb=fpk, broadcast=broadcast,
                  min_confirms=min_conf, total=total, **acc)
        seq0 = self.w.log.seq
        n_acc0 = len(self.chain.accepted_broadcasts)
        ok, t = self.call(wi, 'sweep', lambda: h.sweep(to_arg, min_confirms=min_conf, fee=fee, fee_per_kb=fpk,
                                                      broadcast=broadcast, **acc))
        outs = [(to, None)] if not isinstance(to_arg, list) else [(to, total // 3), (self.ext_keys[0], None)]
        self.after_send(wi, h, ok, t, broadcast, outs, fee, min_conf, seq0, n_acc0, us, request='sweep')

    def after_send(self, wi, h, ok, t, broadcast, outs, fee, min_conf, seq0, n_acc0, utxos_before, request, nco=1):
        w = self.w
        new_acc = self.chain.accepted_broadcasts[n_acc0:]
        if not ok:
            # the call failed (exception / crash): anything the node accepted meanwhile is unacknowledged
            for txid in new_acc:
                wi.unacked.add(txid)
                w.probe('broadcast_unacknowledged')
            if isinstance(t, Exception) or t == 'crash':
                self.on_refused(wi, request, outs, fee, min_conf, utxos_before, t)
            return
        if t is None:
            w.outcome('none')
            return
        info = {'txid': t.txid[:16], 'pushed': bool(t.pushed), 'verified': bool(t.verified), 'fee': int(t.fee or 0),
                'n_in': len(t.inputs), 'n_out': len(t.outputs), 'error': str(t.error)[:60] if t.error else ''}
        w.outcome('tx', **info)
        self.on_created(wi, h, t, request, outs, fee, min_conf, utxos_before, nco)
        if t.pushed:
            txid = t.txid
            if txid not in self.chain.txs:
                w.violation('pushed_but_not_on_network', {'api': request},
                            'transaction %s reported pushed but no provider received it' % txid[:16])
            raw = self.chain.txs[txid].raw.hex()
            wi.sent[txid] = {'raw': raw}
            wi.seen_txids.add(txid)
            for i in t.inputs:
                wi.acked_spent[(i.prev_txid.hex(), i.output_n_int)] = (txid, w.log.seq)
            w.probe('acknowledged_send')
        else:
            for txid in new_acc:
                wi.unacked.add(txid)
                w.probe('broadcast_unacknowledged')
            if not broadcast and t.verified and len(wi.pending) < 4:
                wi.pending.append({'t': t, 'handle': h, 'created_seq': seq0})

    def on_created(self, wi, h, t, request, outs, fee, min_conf, utxos_before, nco):
        """C07 hook."""

    def on_refused(self, wi, request, outs, fee, min_conf, utxos_before, exc):
        """C07 hook."""

    def op_send_pending(self, wi):
        """Send a transaction that was created earlier with broadcast=False (possibly after other sends)."""
        if not wi.pending:
            return
        ch = self.ch
        p = wi.pending.pop(ch.index('pending', len(wi.pending)))
        t = p['t']
        self.w.op('send_pending', wallet=wi.name, txid=t.txid[:16])
        n_acc0 = len(self.chain.accepted_broadcasts)
        n_rej0 = len(self.chain.rejected)
        ok, _ = self.call(wi, 'send_pending', lambda: t.send())
        new_acc = self.chain.accepted_broadcasts[n_acc0:]
        if ok and t.pushed:
            txid = t.txid
            wi.sent[txid] = {'raw': self.chain.txs[txid].raw.hex()}
            wi.seen_txids.add(txid)
            for i in t.inputs:
                wi.acked_spent[(i.prev_txid.hex(), i.output_n_int)] = (txid, self.w.log.seq)
            self.w.outcome('pushed', txid=txid[:16])
        else:
            for txid in new_acc:
                wi.unacked.add(txid)
            self.w.outcome('not_pushed', error=str(getattr(t, 'error', ''))[:80],
                           rejected=[r for r, _ in self.chain.rejected[n_rej0:]])

    def op_import(self, wi):
        """Create on one handle (unsent), hand the transaction over as raw / dict / object, import on a handle."""
        if not wi.pending:
            return
        ch = self.ch
        p = wi.pending[ch.index('imp_i', len(wi.pending))]
        t = p['t']
        form = ch.pick('imp_form', ['raw', 'dict', 'object'])
        self.w.op('transaction_import', wallet=wi.name, txid=t.txid[:16], form=form)
        h = self.H(wi)
        if form == 'raw':
            ok, r = self.call(wi, 'import', lambda: h.transaction_import_raw(t.raw_hex()))
        elif form == 'dict':
            ok, r = self.call(wi, 'import', lambda: h.transaction_import(t.as_dict()))
        else:
            ok, r = self.call(wi, 'import', lambda: h.transaction_import(t))
        if ok and r is not None:
            self.w.outcome('imported', txid=r.txid[:16], verified=bool(r.verified), n_in=len(r.inputs))
            if r.verified and len(wi.pending) < 4:
                wi.pending.append({'t': r, 'handle': h, 'created_seq': p['created_seq']})

    def op_delete(self, wi):
        ch = self.ch
        h = self.H(wi)
        cands = sorted(x for x in wi.sent if self.chain.txs[x].height is None)
        how = ch.pick('del', ['transaction_delete', 'transactions_remove_unconfirmed'] +
                      (['delete_funding'] if self.focus == 'C08' else []))
        if how == 'delete_funding':
            # forget a transaction whose output an acknowledged send consumed, then let the wallet find it again
            prevs = sorted({op_[0] for op_ in wi.acked_spent})
            if not prevs:
                return
            txid = prevs[ch.index('del_f', len(prevs))]
            self.w.op('transaction_delete_funding', wallet=wi.name, txid=txid[:16])
            ok, r = self.call(wi, 'transaction_delete', lambda: h.transaction_delete(txid))
            ok2, t2 = self.observe(lambda: self.H(wi).transaction(txid))
            if ok2 and t2 is None:
                # (it may itself be one of the wallet's sends: then the wallet was told to forget that send)
                for op_, (tx_, _) in list(wi.acked_spent.items()):
                    if tx_ == txid:
                        del wi.acked_spent[op_]
                wi.sent.pop(txid, None)
                wi.seen_txids.discard(txid)
            if ok:
                self.w.outcome('deleted', n=1)
                ok, r = self.call(wi, 'utxos_update', lambda: h.utxos_update(**self.acct(wi)))
            return
        if how == 'transaction_delete':
            if not cands:
                return
            txid = cands[ch.index('del_i', len(cands))]
            self.w.op('transaction_delete', wallet=wi.name, txid=txid[:16])
            ok, r = self.call(wi, how, lambda: h.transaction_delete(txid))
            deleted = [txid] if ok else []
        else:
            hours = ch.pick('hours', [0, 1])
            self.w.op('transactions_remove_unconfirmed', wallet=wi.name, hours=hours)
            ok, r = self.call(wi, how, lambda: h.transactions_remove_unconfirmed(hours_old=hours))
            deleted = []
            if ok:
                # the wallet removes what *it* believes unconfirmed (its stored confirmation counts may lag the chain)
                for txid in sorted(wi.sent):
                    ok2, t2 = self.observe(lambda: h.transaction(txid))
                    if ok2 and t2 is None:
                        deleted.append(txid)
        if not ok:
            # an interrupted delete may already be durable: follow what the wallet actually forgot
            h2 = self.H(wi)
            for txid in sorted(wi.sent):
                ok2, t2 = self.observe(lambda: h2.transaction(txid))
                if ok2 and t2 is None:
                    deleted.append(txid)
                    self.w.probe('delete_interrupted_but_durable')
        for txid in deleted:
            # the wallet was told to forget this transaction: its inputs are no longer "sent" for the wallet
            for op_, (tx_, _) in list(wi.acked_spent.items()):
                if tx_ == txid:
                    del wi.acked_spent[op_]
            wi.sent.pop(txid, None)
            wi.seen_txids.discard(txid)
        if ok:
            self.w.outcome('deleted', n=len(deleted))

    def op_bumpfee(self, wi):
        ch = self.ch
        h = self.H(wi)
        cands = sorted(x for x in wi.sent if self.chain.txs[x].height is None)
        pend = [p for p in wi.pending if p['handle'] in wi.handles]
        if pend and (not cands or ch.coin('bump_pending', 0.5)):
            return self.op_bumpfee_pending(wi, pend[ch.index('bump_p', len(pend))])
        if not cands:
            return
        txid = cands[ch.index('bump_i', len(cands))]
        how = ch.pick('bump_how', ['default', 'fee', 'extra_fee', 'eat_change'])
        self.w.op('bumpfee', wallet=wi.name, txid=txid[:16], how=how)
        ok, t = self.call(wi, 'transaction', lambda: h.transaction(txid))
        if not ok or t is None:
            return
        old_fee = t.fee
        old_inputs = [(i.prev_txid.hex(), i.output_n_int) for i in t.inputs]
        kw = {}
        if how == 'fee':
            kw['fee'] = (t.fee or 0) + ch.pick('bump_v', [500, 5000])
        elif how == 'extra_fee':
            kw['extra_fee'] = ch.pick('bump_v', [500, 5000])
        elif how == 'eat_change':
            # an extra fee that consumes the smallest change output completely
            chg = sorted(o.value for o in t.outputs if o.change)
            if not chg:
                return
            kw['extra_fee'] = chg[0] + ch.pick('bump_eat', [1, 0, 600])
        t.pushed = True     # the transaction was broadcast by this wallet (reloaded objects do not remember)
        bc = ch.coin('bump_bc', 0.6)
        n_acc0 = len(self.chain.accepted_broadcasts)
        ok, _ = self.call(wi, 'bumpfee', lambda: t.bumpfee(broadcast=bc, **kw))
        if not ok:
            # an interrupted / failed fee bump may already have removed the replaced transaction from the wallet
            ok2, t_old = self.observe(lambda: self.H(wi).transaction(txid))
            if ok2 and t_old is None:
                for op_, (tx_, _) in list(wi.acked_spent.items()):
                    if tx_ == txid:
                        del wi.acked_spent[op_]
                wi.sent.pop(txid, None)
                wi.seen_txids.discard(txid)
                self.w.probe('bumpfee_interrupted_after_delete')
            return
        self.w.outcome('bumped', old_fee=old_fee, new_fee=t.fee, txid=t.txid[:16], pushed=bool(t.pushed))
        self.on_bumped(wi, h, t, old_fee, txid)
        # the old transaction was removed from the wallet by bumpfee
        for op_, (tx_, _) in list(wi.acked_spent.items()):
            if tx_ == txid:
                del wi.acked_spent[op_]
        wi.sent.pop(txid, None)
        wi.seen_txids.discard(txid)
        if bc and t.txid in self.chain.txs and t.status == 'unconfirmed':
            wi.sent[t.txid] = {'raw': self.chain.txs[t.txid].raw.hex()}
            wi.seen_txids.add(t.txid)
            for i in t.inputs:
                wi.acked_spent[(i.prev_txid.hex(), i.output_n_int)] = (t.txid, self.w.log.seq)

    def op_bumpfee_pending(self, wi, p):
        """Raise the fee of a transaction that was created and signed but not broadcast yet."""
        ch = self.ch
        t = p['t']
        how = ch.pick('bump_how', ['default', 'extra_fee', 'eat_change', 'more_than_change'])
        self.w.op('bumpfee_pending', wallet=wi.name, txid=t.txid[:16], how=how)
        old_fee = t.fee
        old_outs = [(bytes(o.lock_script), o.value, bool(o.change)) for o in t.outputs]
        self.bump_old_inputs = {(i.prev_txid.hex(), i.output_n_int) for i in t.inputs}
        kw = {}
        chg = sorted(o.value for o in t.outputs if o.change)
        if how == 'extra_fee':
            kw['extra_fee'] = ch.pick('bump_v', [500, 5000])
        elif how == 'eat_change':
            if not chg:
                return
            kw['extra_fee'] = chg[0] + ch.pick('bump_eat', [1, 0, 600])
        elif how == 'more_than_change':
            # the change cannot cover the bump: the wallet has to add another of its unspent outputs
            kw['extra_fee'] = sum(chg) + ch.pick('bump_more', [700, 3000])
        ok, _ = self.call(wi, 'bumpfee_pending', lambda: t.bumpfee(broadcast=False, **kw))
        if not ok:
            wi.pending = [q for q in wi.pending if q is not p]
            return
        self.w.outcome('bumped', old_fee=old_fee, new_fee=t.fee, n_in=len(t.inputs), n_out=len(t.outputs))
        self.on_bumped_pending(wi, p['handle'], t, old_fee, old_outs)

    def on_bumped_pending(self, wi, h, t, old_fee, old_outs):
        """C07 hook."""

    def on_bumped(self, wi, h, t, old_fee, old_txid):
        """C07 hook."""

    def op_listing(self, wi):
        """Read-only listings and exports; they must leave the open wallet as it was (the ledger views follow)."""
        ch = self.ch
        h = self.H(wi)
        how = ch.pick('listing', ['transactions_as_dict', 'transactions_as_dict_new', 'transactions_full', 'keys_as_dict',
                                  'as_dict', 'transactions_export', 'info'])
        self.w.op('listing', wallet=wi.name, how=how)
        if how == 'transactions_as_dict':
            fn = lambda: h.transactions(as_dict=True)
        elif how == 'transactions_as_dict_new':
            fn = lambda: h.transactions(as_dict=True, include_new=True)
        elif how == 'transactions_full':
            fn = lambda: h.transactions_full(limit=5)
        elif how == 'keys_as_dict':
            fn = lambda: h.keys(as_dict=True)
        elif how == 'as_dict':
            fn = lambda: h.as_dict()
        elif how == 'transactions_export':
            fn = lambda: h.transactions_export()
        else:
            import contextlib
            import io

            def fn():
                with contextlib.redirect_stdout(io.StringIO()):
                    h.info(detail=ch.pick('detail', [1, 3, 5]))
        ok, r = self.call(wi, how, fn)
        if ok:
            self.w.outcome('listed', n=len(r) if isinstance(r, (list, dict)) else 0)

    def op_handles(self, wi):
        ch = self.ch
        how = ch.weighted('hop', [('reopen', 4), ('second', 2 if self.multi_handle else 0), ('switch', 2),
                                  ('drop', 1), ('gc', 2 if self.gc_enabled else 0)])
        self.w.op('handle_' + how, wallet=wi.name, n=len(wi.handles))
        if how == 'reopen':
            if wi.handles:
                self.close_handle(wi.handles[wi.cur % len(wi.handles)])
                wi.pending = [p for p in wi.pending if p['handle'] is not wi.handles[wi.cur % len(wi.handles)]]
                wi.handles[wi.cur % len(wi.handles)] = self.open_handle(wi)
        elif how == 'second':
            if len(wi.handles) < 3:
                wi.handles.append(self.open_handle(wi))
                wi.cur = len(wi.handles) - 1
                self.w.faults['multi_handle'] = self.w.faults.get('multi_handle', 0) + 1
        elif how == 'switch':
            if wi.handles:
                wi.cur = (wi.cur + 1) % len(wi.handles)
        elif how == 'drop':
            if wi.handles:
                # abandoned without close
                dropped = wi.handles.pop(wi.cur % len(wi.handles))
                wi.pending = [p for p in wi.pending if p['handle'] is not dropped]
                del dropped
                self.w.faults['drop_handle'] = self.w.faults.get('drop_handle', 0) + 1
        else:
            self.w.faults['gc_collect'] = self.w.faults.get('gc_collect', 0) + 1
            gc.collect()

    def op_arm_crash(self):
        j = self.ch.int('crash_j', 1, 15)
        self.w.op('arm_crash', j=j)
        self.crash_in = j

    # -- observation (fault-free) ---------------------------------------------------------------------------
    def observe(self, fn):
        self.quiet = True
        try:
            return True, fn()
        except StopRun:
            raise
        except Exception as e:
            return False, e
        finally:
            self.quiet = False

    # -- main loop --------------------------------------------------------------------------------------------
    OPS_C08 = [('send', 10), ('fund', 8), ('update', 9), ('new_key', 4), ('utxo_add', 3), ('sweep', 2), ('mine', 4),
               ('handles', 6), ('send_pending', 3), ('import', 2), ('delete', 3), ('bumpfee', 2), ('advance', 2),
               ('arm_crash', 2), ('listing', 4)]

    def ops_table(self):
        return self.OPS_C08

    def step(self):
        ch = self.ch
        table = [(k, wgt) for k, wgt in self.ops_table() if not (k == 'arm_crash' and not self.crash_enabled)]
        kind = ch.weighted('op', table)
        wi = self.pick_wallet()
        if kind == 'send':
            self.op_send(wi)
        elif kind == 'fund':
            self.op_fund(wi)
        elif kind == 'update':
            self.op_update(wi)
        elif kind == 'new_key':
            self.op_new_key(wi)
        elif kind == 'utxo_add':
            self.op_utxo_add(wi)
        elif kind == 'sweep':
            self.op_sweep(wi)
        elif kind == 'mine':
            self.op_mine()
        elif kind == 'handles':
            self.op_handles(wi)
        elif kind == 'send_pending':
            self.op_send_pending(wi)
        elif kind == 'import':
            self.op_import(wi)
        elif kind == 'delete':
            self.op_delete(wi)
        elif kind == 'bumpfee':
            self.op_bumpfee(wi)
        elif kind == 'advance':
            self.op_advance()
        elif kind == 'arm_crash':
            self.op_arm_crash()
        elif kind == 'listing':
            self.op_listing(wi)
        else:
            self.op_extra(kind, wi)
        self.after_op(kind, wi)

    def op_extra(self, kind, wi):
        raise RuntimeError(kind)

    def after_op(self, kind, wi):
        pass

    def finish(self):
        pass


# ---------------------------------------------------------------------------------------------------------
# reference derivation of wallet addresses (RefBIP32 + RefCodec; nothing from bitcoinlib)

def ref_pub_to_address(pub, wt, network):
    if wt == 'segwit':
        return rcodec.p2wpkh_address(pub, network)
    if wt == 'p2sh-segwit':
        return rcodec.p2sh_p2wpkh_address(pub, network)
    return rcodec.p2pkh_address(pub, network)


def ref_path(wi, coin, change, index, account=0, wt=None):
    """Documented path template for a single-signature HD wallet key (written out here, not read from the library)."""
    wt = wt or wi.wt
    return "m/%d'/%d'/%d'/%d/%d" % (PURPOSE[wt], coin, account, change, index)


def ref_ms_paths(wi, coin, change, index, cosigner_index=0, wt=None):
    """(account path, relative path) for a multisig cosigner key."""
    if wi.wt == 'legacy':
        return "m/45'", "%d/%d/%d" % (cosigner_index, change, index)
    if wt and wt != wi.wt and wt != 'legacy':
        # BIP48: the other script type of the same wallet
        return MS_ACCOUNT_PATH[wt] % coin, "%d/%d" % (change, index)
    return wi.ref['acc_path'], "%d/%d" % (change, index)


_ADDR_CACHE = {}


def ref_address(wi, network, coin, change, index, account=0, wt=None, cosigner_index=0):
    """Address (and key material) the standards give for (change, index) of this wallet."""
    wt = wt or wi.wt
    key = (id(wi), change, index, account, wt, cosigner_index)
    if key in _ADDR_CACHE:
        return _ADDR_CACHE[key]
    if wi.kind == 'single':
        pub = rec.pub_from_priv(wi.ref['priv'], True)
        res = {'address': ref_pub_to_address(pub, wt, network), 'pub': pub, 'priv': wi.ref['priv'], 'path': 'm'}
    elif wi.kind == 'hd':
        path = ref_path(wi, coin, change, index, account, wt)
        node = wi.ref['master'].derive(path)
        res = {'address': ref_pub_to_address(node.pub, wt, network), 'pub': node.pub, 'priv': node.priv, 'path': path}
    else:
        acc, rel = ref_ms_paths(wi, coin, change, index, cosigner_index, wt)
        pubs = []
        for mk in wi.ref['masters']:
            pubs.append(mk.derive(acc).derive(rel).pub)
        pubs_sorted = sorted(pubs)
        script = rscript.multisig_script(wi.m, pubs_sorted)
        if wt == 'legacy':
            addr = rcodec.p2sh_address(script, network)
        elif wt == 'p2sh-segwit':
            addr = rcodec.p2sh_p2wsh_address(script, network)
        else:
            addr = rcodec.p2wsh_address(script, network)
        res = {'address': addr, 'script': script, 'pubs': pubs, 'path': acc + '/' + rel}
    _ADDR_CACHE[key] = res
    return res
