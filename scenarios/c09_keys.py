"""C09 — wallet keys follow BIP44/49/84/48 paths and restore deterministically (DESIGN.md 6, C09)."""
import os

from scenarios.wallet_world import (WalletWorld, WInfo, init_worker, nontrivial, ref_address, ref_pub_to_address,  # noqa: F401
                                    PURPOSE, MS_ACCOUNT_PATH, MS_FAMILY, _STATE)
from ref import bip32 as rbip32, codec as rcodec, hashes as rhashes, secp256k1 as rec
from simkit.world import StopRun

FAMILY = {'legacy': 'legacy', 'p2sh-segwit': 'p2sh_p2wpkh', 'segwit': 'p2wpkh'}


class C09World(WalletWorld):
    OPS = [('issue', 16), ('import_key', 2), ('default_account', 2), ('explicit', 5), ('bulk', 5), ('account', 3), ('mixed', 4), ('scan_gap', 4), ('mark_used', 5),
           ('handles', 7), ('rebuild', 4), ('watch', 3), ('fund', 2), ('mine', 1), ('arm_crash', 2), ('listing', 4),
           ('second_network', 3)]

    def ops_table(self):
        return self.OPS

    def __init__(self, world):
        WalletWorld.__init__(self, world)
        self.rebuilt = 0
        # One extended-key prefix for several script families (litecoin Mtpv/Mtub: p2sh-segwit and segwit;
        # litecoin_testnet ttpv/ttub: all three): on re-import the library takes the first family that matches, so the
        # recorded finding C09-ambiguous-xkey-prefix hits the families that are not first - and applies from the moment
        # such a witness type is in play in the run.
        self.ambiguous_wt = {'litecoin': {'segwit'}, 'litecoin_testnet': {'p2sh-segwit', 'segwit'}}.get(self.network, set())
        if self.ambiguous_wt:
            for wi in self.wallets:
                self.touch_wt(wi.wt)
        for wi in self.wallets:
            wi.explicit = set()      # chains that saw an explicit-index request (gaps allowed there)
            wi.accounts = {0}

    def xprv_of_type(self, wt):
        fam = {'legacy': 'legacy', 'p2sh-segwit': 'p2sh_p2wpkh', 'segwit': 'p2wpkh'}[wt]
        node = rbip32.RefHDNode.from_seed(b'c09 ambiguity probe seed')
        return node.ser_private(rcodec.NETWORKS[self.network]['xkeys'][fam][1])

    def touch_wt(self, wt):
        if wt in self.ambiguous_wt:
            self.w.sig_env = {'env': 'ambiguous_extended_key_prefix'}

    # -- reference expectations ---------------------------------------------------------------------------
    def expect(self, wi, k):
        """Reference (path, address, pub, priv, xwif) for the chain position the WalletKey claims."""
        wt = k.witness_type or wi.wt
        acc = k.account_id or 0
        chg = k.change or 0
        idx = k.address_index
        cos = k.cosigner_id if k.cosigner_id is not None else 0
        if wi.kind == 'watch':
            node = wi.ref['account_pub'].derive('%d/%d' % (chg, idx))
            return {'path': 'M/%d/%d' % (chg, idx), 'address': ref_pub_to_address(node.pub, wt, self.network),
                    'pub': node.pub, 'priv': None,
                    'abs_address': ref_pub_to_address(wi.ref['master'].derive(
                        "m/%d'/%d'/%d'/%d/%d" % (PURPOSE[wt], self.coin, wi.ref['account'], chg, idx)).pub, wt, self.network)}
        r = ref_address(wi, self.network, self.coin, chg, idx, account=acc, wt=wt, cosigner_index=cos)
        return r

    def check_key(self, wi, k, where):
        w = self.w
        sig = {'where': where, 'wallet_kind': wi.kind}
        if wi.kind == 'single':
            e = ref_address(wi, self.network, self.coin, 0, 0)
            if k.address != e['address'] or k.path != 'm':
                w.violation('key_not_at_documented_path', dict(sig, field='single'), '%s %s vs %s' % (k.path, k.address, e))
            return
        if k.depth != self.key_depth(wi):
            return
        if str(k.path).startswith('import_key_'):
            if where != 'listing':
                w.violation('imported_key_handed_out', {'api': where},
                            '%s: %s returned the imported single key %s (%s), which no derivation from the master key '
                            'reproduces' % (wi.name, where, k.path, k.address))
            return
        e = self.expect(wi, k)
        if wi.kind == 'ms':
            # the wallet reports the path of its own cosigner key; 'M/...' when that key is an account-level public key
            want_abs = e['path']
            ok_path = k.path == want_abs or (k.path.startswith('M/') and want_abs.endswith(k.path[1:]))
            if not ok_path:
                w.violation('key_not_at_documented_path', dict(sig, field='path'),
                            '%s: wallet says %s, template gives %s' % (wi.name, k.path, want_abs))
            if k.address != e['address']:
                w.violation('address_not_from_bip32_derivation', dict(sig, witness=k.witness_type),
                            '%s: %s has address %s, reference multisig derivation gives %s' %
                            (wi.name, k.path, k.address, e['address']))
            return
        if k.path != e['path']:
            w.violation('key_not_at_documented_path', dict(sig, field='path'),
                        '%s: wallet says %s, template for (wt=%s, account=%s, change=%s, index=%s) is %s' %
                        (wi.name, k.path, k.witness_type, k.account_id, k.change, k.address_index, e['path']))
        if k.address != e['address']:
            w.violation('address_not_from_bip32_derivation', dict(sig, witness=k.witness_type),
                        '%s: %s has address %s, reference derivation gives %s' % (wi.name, k.path, k.address, e['address']))
        if wi.kind == 'watch' and k.address != e['abs_address']:
            w.violation('watch_only_differs_from_private_wallet', sig, '%s: %s vs %s' % (k.path, k.address, e['abs_address']))
        if k.key_public is not None and bytes(k.key_public) != e['pub']:
            w.violation('key_material_not_from_bip32_derivation', dict(sig, field='public'),
                        '%s: public key %s vs %s' % (k.path, bytes(k.key_public).hex(), e['pub'].hex()))
        if e.get('priv') is not None:
            if not k.key_private or int.from_bytes(bytes(k.key_private), 'big') != e['priv']:
                w.violation('key_material_not_from_bip32_derivation', dict(sig, field='private'),
                            '%s: private key differs from reference derivation' % k.path)
            wt = k.witness_type or wi.wt
            node = wi.ref['master'].derive(e['path'])
            want_wif = node.ser_private(rcodec.NETWORKS[self.network]['xkeys'][FAMILY[wt]][1])
            if k.wif != want_wif:
                w.violation('key_material_not_from_bip32_derivation', dict(sig, field='wif'),
                            '%s: wif %s... vs reference %s...' % (k.path, str(k.wif)[:20], want_wif[:20]))
        w.probe('key_checked')

    def key_depth(self, wi):
        if wi.kind == 'watch':
            return 5
        if wi.kind == 'ms':
            return 4 if wi.wt == 'legacy' else 6
        return 5 if wi.kind == 'hd' else 0

    # -- listing invariants ----------------------------------------------------------------------------------
    def listing(self, wi, h):
        """(chain -> {index: (id, address, path)}), via keys() + key(): every listed key also gets the path check."""
        ok, ks = self.observe(lambda: [(k.id, k.depth) for k in h.keys(network=self.network)])
        if not ok:
            return None
        chains = {}
        addrs = {}
        depth = self.key_depth(wi)
        for kid, d in ks:
            if d != depth:
                continue
            ok, k = self.observe(lambda: h.key(kid))
            if not ok:
                self.w.violation('listed_key_unreadable', {'wallet_kind': wi.kind}, '%s: key(%d): %r' % (wi.name, kid, k))
            if str(k.path).startswith('import_key_'):
                continue        # an unrelated single key imported into the wallet; not part of any derivation chain
            chain = (k.account_id or 0, k.witness_type, k.change or 0, k.cosigner_id)
            c = chains.setdefault(chain, {})
            if k.address_index in c:
                self.w.violation('index_issued_twice', {'wallet_kind': wi.kind},
                                 '%s: chain %s index %d held by key ids %d and %d' %
                                 (wi.name, chain, k.address_index, c[k.address_index][0], kid))
            c[k.address_index] = (kid, k.address, k.path)
            if k.address in addrs:
                self.w.violation('address_shared_by_two_keys', {'wallet_kind': wi.kind},
                                 '%s: %s held by key ids %d and %d' % (wi.name, k.address, addrs[k.address], kid))
            addrs[k.address] = kid
            self.check_key(wi, k, 'listing')
        for chain, c in chains.items():
            if (wi.name, chain) in wi.explicit or chain in wi.explicit:
                continue
            idx = sorted(c)
            if idx and idx != list(range(idx[0], idx[0] + len(idx))):
                self.w.violation('index_gap', {'wallet_kind': wi.kind}, '%s: chain %s has indices %s' % (wi.name, chain, idx))
        return chains

    def chain_max(self, chains, chain):
        c = chains.get(chain, {}) if chains else {}
        return max(c) if c else -1

    # -- operations ------------------------------------------------------------------------------------------
    def op_issue(self, wi):
        ch, w = self.ch, self.w
        if wi.kind == 'single':
            return self.op_new_key(wi)
        h = self.H(wi)
        how = ch.pick('issue', ['new_key', 'new_key_change', 'get_key', 'get_key_change', 'new_key', 'get_key'])
        acc = sorted(wi.accounts)[ch.index('acc', len(wi.accounts))]
        if wi.kind == 'watch':
            acc = None       # a wallet on an account-level public key has exactly that account
        change = 1 if 'change' in how else 0
        before = self.listing(wi, h)
        w.op(how, wallet=wi.name, account=acc)
        if how == 'new_key':
            ok, k = self.call(wi, how, lambda: h.new_key(account_id=acc))
        elif how == 'new_key_change':
            ok, k = self.call(wi, how, lambda: h.new_key_change(account_id=acc))
        elif how == 'get_key':
            ok, k = self.call(wi, how, lambda: h.get_key(account_id=acc))
        else:
            ok, k = self.call(wi, how, lambda: h.get_key_change(account_id=acc))
        if not ok:
            return
        w.outcome('key', path=k.path, index=k.address_index, addr=k.address)
        self.check_key(wi, k, how)
        chain = (k.account_id or 0, k.witness_type, k.change or 0, k.cosigner_id)
        if (k.change or 0) != change or (acc is not None and (k.account_id or 0) != acc):
            w.violation('wrong_chain', {'api': how}, '%s: asked account %d change %d, got %s' % (wi.name, acc, change, k.path))
        if before is not None:
            # explicit-index requests may leave gaps, but issuing still continues after the highest index
            mx = self.chain_max(before, chain)
            existing = before.get(chain, {})
            if how.startswith('new_key'):
                if k.address_index != mx + 1:
                    w.violation('index_not_next', {'api': how}, '%s: chain %s had max index %d, %s returned index %d' %
                                (wi.name, chain, mx, how, k.address_index))
            else:
                if k.address_index not in existing and k.address_index != mx + 1:
                    w.violation('index_not_next', {'api': how}, '%s: chain %s had indices %s, %s returned new index %d' %
                                (wi.name, chain, sorted(existing), how, k.address_index))

    def op_bulk(self, wi):
        ch, w = self.ch, self.w
        if wi.kind == 'single':
            return
        h = self.H(wi)
        n = ch.int('bulk_n', 2, 6)
        change = ch.index('bulk_chg', 2)
        how = ch.pick('bulk_how', ['get_keys', 'new_keys', 'get_keys_change'])
        before = self.listing(wi, h)
        w.op('bulk_' + how, wallet=wi.name, n=n, change=change)
        if how == 'get_keys':
            ok, ks = self.call(wi, how, lambda: h.get_keys(number_of_keys=n, change=change))
        elif how == 'new_keys':
            ok, ks = self.call(wi, how, lambda: h.new_keys(number_of_keys=n, change=change))
        else:
            change = 1
            ok, ks = self.call(wi, how, lambda: h.get_keys_change(number_of_keys=n))
        if not ok:
            return
        w.outcome('keys', paths=[k.path for k in ks])
        ks_chain = [k for k in ks if not str(k.path).startswith('import_key_')]
        if len(ks) != n:
            w.violation('bulk_count', {'api': how}, 'asked %d keys, got %d' % (n, len(ks)))
        idx = []
        for k in ks:
            self.check_key(wi, k, how)
            if str(k.path).startswith('import_key_'):
                continue        # reported by check_key (recorded finding); not part of the chain's index bookkeeping
            idx.append(k.address_index)
            if (k.change or 0) != change:
                w.violation('wrong_chain', {'api': how}, 'asked change %d, got %s' % (change, k.path))
        if len(set(idx)) != len(idx):
            w.violation('index_issued_twice', {'api': how}, 'bulk call returned indices %s' % idx)
        if before is not None and ks_chain:
            ks = ks_chain
            chain = (ks[0].account_id or 0, ks[0].witness_type, change, ks[0].cosigner_id)
            if how == 'new_keys' or chain not in wi.explicit:
                mx = self.chain_max(before, chain)
                new = sorted(i for i in idx if i not in before.get(chain, {}))
                if new and new != list(range(mx + 1, mx + 1 + len(new))):
                    w.violation('index_not_next', {'api': how}, '%s: chain %s max %d, bulk created indices %s' %
                                (wi.name, chain, mx, new))

    def op_explicit(self, wi):
        ch, w = self.ch, self.w
        if wi.kind == 'single':
            return
        h = self.H(wi)
        change = ch.index('ex_chg', 2)
        idx = ch.pick('ex_idx', [0, 1, 3, 7, 20])
        how = ch.pick('ex_how', ['key_for_path', 'address_index', 'keys_for_path_bulk', 'key_for_path_full'])
        if how == 'key_for_path_full' and wi.kind != 'hd':
            how = 'key_for_path'
        acc = sorted(wi.accounts)[ch.index('acc', len(wi.accounts))]
        if wi.kind == 'watch':
            acc = None
        w.op('explicit_' + how, wallet=wi.name, change=change, index=idx, account=acc)
        # an explicit index may leave a gap in this chain, whether or not the call is acknowledged
        cos = h.cosigner_id if wi.kind == 'ms' else None
        wi.explicit.add((acc or 0, wi.wt, change, cos))
        if how == 'keys_for_path_bulk':
            # several consecutive keys from an explicit starting point in one call
            n = ch.int('ex_n', 2, 4)
            ok, ks = self.call(wi, how, lambda: h.keys_for_path([change, idx], account_id=acc, number_of_keys=n))
            if not ok:
                return
            w.outcome('keys', paths=[k.path for k in ks])
            for j, k in enumerate(ks):
                if k.address_index != idx + j or (k.change or 0) != change:
                    w.violation('explicit_path_not_honoured', {'api': how},
                                'asked change %d index %d (+%d), got %s stored as change %r index %r' %
                                (change, idx, j, k.path, k.change, k.address_index))
                self.check_key(wi, k, how)
            return
        if how == 'key_for_path':
            ok, k = self.call(wi, how, lambda: h.key_for_path([change, idx], account_id=acc))
        elif how == 'key_for_path_full':
            # the whole path as a string, no account argument: the account is the one the path names, whatever the
            # wallet's default account is at the moment
            others = sorted(a for a in wi.accounts if a != (h.default_account_id or 0))
            if others:
                acc = others[ch.index('ex_other_acc', len(others))]
                wi.explicit.add((acc, wi.wt, change, cos))
            full = "m/%d'/%d'/%d'/%d/%d" % (PURPOSE[wi.wt], self.coin, acc, change, idx)
            ok, k = self.call(wi, how, lambda: h.key_for_path(full))
            if ok and k.path != full:
                w.violation('explicit_path_not_honoured', {'api': how}, 'asked %s, got %s' % (full, k.path))
        else:
            ok, k = self.call(wi, how, lambda: h.address_index(idx, account_id=acc, change=change))
        if not ok:
            return
        w.outcome('key', path=k.path, index=k.address_index)
        wi.explicit.add((k.account_id or 0, k.witness_type, k.change or 0, k.cosigner_id))
        if k.address_index != idx or (k.change or 0) != change:
            w.violation('explicit_path_not_honoured', {'api': how}, 'asked change %d index %d, got %s' % (change, idx, k.path))
        self.check_key(wi, k, how)

    def op_account(self, wi):
        ch, w = self.ch, self.w
        if wi.kind != 'hd':
            return
        h = self.H(wi)
        w.op('new_account', wallet=wi.name)
        ok, k = self.call(wi, 'new_account', lambda: h.new_account())
        if not ok:
            return
        acc = k.account_id
        w.outcome('account', id=acc, path=k.path)
        want = "m/%d'/%d'/%d'" % (PURPOSE[wi.wt], self.coin, acc)
        if k.path != want:
            w.violation('key_not_at_documented_path', {'where': 'new_account', 'wallet_kind': wi.kind, 'field': 'path'},
                        'account key at %s, template %s' % (k.path, want))
        if acc in wi.accounts:
            w.violation('account_issued_twice', {}, 'account %d already existed' % acc)
        wi.accounts.add(acc)
        node = wi.ref['master'].derive(want)
        if bytes(k.key_public) != node.pub:
            w.violation('key_material_not_from_bip32_derivation', {'where': 'new_account', 'wallet_kind': wi.kind,
                                                                   'field': 'public'}, 'account key differs')

    def op_mixed(self, wi):
        """Keys of another witness type in the same (private HD) wallet."""
        ch, w = self.ch, self.w
        ms_all_private = wi.kind == 'ms' and wi.wt != 'legacy' and wi.ref.get('n_priv') == wi.n
        if wi.kind != 'hd' and not ms_all_private:
            return
        h = self.H(wi)
        if ms_all_private:
            # BIP48 wallet whose cosigner keys are all master keys: the other script type can be derived as well
            wt = 'segwit' if wi.wt == 'p2sh-segwit' else 'p2sh-segwit'
        else:
            wt = ch.pick('mixed_wt', [x for x in ('segwit', 'p2sh-segwit', 'legacy') if x != wi.wt])
        how = ch.pick('mixed_how', ['new_key', 'get_key', 'new_key_change'])
        before = self.listing(wi, h)
        w.op('mixed_' + how, wallet=wi.name, witness_type=wt)
        self.touch_wt(wt)
        ok, k = self.call(wi, how, lambda: getattr(h, how)(witness_type=wt))
        if not ok:
            return
        w.outcome('key', path=k.path, index=k.address_index, addr=k.address)
        if k.witness_type != wt:
            w.violation('wrong_chain', {'api': 'mixed'}, 'asked witness type %s got %s' % (wt, k.witness_type))
        self.check_key(wi, k, 'mixed')
        chain = (k.account_id or 0, k.witness_type, k.change or 0, k.cosigner_id)
        if before is not None and how.startswith('new_key'):
            mx = self.chain_max(before, chain)
            if k.address_index != mx + 1:
                w.violation('index_not_next', {'api': 'mixed_' + how}, 'chain %s max %d, got %d' % (chain, mx, k.address_index))

    def op_import_key(self, wi):
        """Import an unrelated single private key into an HD wallet: key issuing must not be disturbed."""
        ch, w = self.ch, self.w
        if wi.kind != 'hd':
            return
        h = self.H(wi)
        self.imported = getattr(self, 'imported', 0) + 1
        priv = int.from_bytes(rhashes.sha256(b'imported %d %d' % (self.imported, ch.seed % 1000003)), 'big') % (rec.N - 1) + 1
        wif = rcodec.wif_encode(priv, True, rcodec.NETWORKS[self.network]['wif'])
        w.op('import_key', wallet=wi.name)
        ok, k = self.call(wi, 'import_key', lambda: h.import_key(wif))
        if ok:
            w.outcome('imported', key_id=getattr(k, 'key_id', None))
            wi.has_imported = True

    def op_default_account(self, wi):
        """Make another existing account the wallet's default: explicit requests for account 0 must still get account 0."""
        ch, w = self.ch, self.w
        if wi.kind != 'hd' or len(wi.accounts) < 2:
            return
        h = self.H(wi)
        acc = sorted(wi.accounts)[ch.index('def_acc', len(wi.accounts))]
        w.op('set_default_account', wallet=wi.name, account=acc)

        def setit():
            h.default_account_id = acc
        ok, _ = self.call(wi, 'default_account', setit)
        if ok:
            w.outcome('default_account', account=acc)

    def op_mark_used(self, wi):
        """Fund an issued address and let the wallet learn about it: the next get_key must move on."""
        self.op_fund(wi)
        self.op_update(wi)

    def op_scan_gap(self, wi):
        """Fund reference-derived addresses beyond what the wallet has issued, then scan."""
        ch, w = self.ch, self.w
        if wi.kind not in ('hd', 'ms', 'watch'):
            return
        h = self.H(wi)
        chains = self.listing(wi, h)
        if chains is None:
            return
        gap = ch.pick('gap', [2, 3, 5])
        ahead = ch.int('ahead', 0, gap)
        cos = h.cosigner_id if wi.kind == 'ms' else None
        mx = self.chain_max(chains, (0, wi.wt, 0, cos))
        target = mx + ahead
        if target < 0:
            target = 0
        if wi.kind == 'watch':
            node = wi.ref['account_pub'].derive('0/%d' % target)
            addr = ref_pub_to_address(node.pub, wi.wt, self.network)
        else:
            addr = ref_address(wi, self.network, self.coin, 0, target, cosigner_index=cos or 0)['address']
        w.op('scan_gap', wallet=wi.name, gap=gap, funded_index=target, max_before=mx)
        self.chain.fund([(self.script_of(addr), 70000)])
        self.chain.mine()
        ok, r = self.call(wi, 'scan', lambda: h.scan(scan_gap_limit=gap))
        if ok:
            w.outcome('scanned')

    def op_listing(self, wi):
        self.w.op('listing', wallet=wi.name)
        self.listing(wi, self.H(wi))

    def op_watch(self, wi):
        """Create a watch-only wallet from the account public key the private wallet exports."""
        ch, w = self.ch, self.w
        if wi.kind != 'hd' or len(self.wallets) >= 4:
            return
        h = self.H(wi)
        acc = sorted(wi.accounts)[ch.index('acc', len(wi.accounts))]
        via = ch.weighted('export_via', [('wallet', 3), ('hdkey', 2)])
        shared = {'litecoin': {'p2sh-segwit', 'segwit'}, 'litecoin_testnet': {'legacy', 'p2sh-segwit', 'segwit'}}
        if via == 'hdkey' and wi.wt in shared.get(self.network, set()):
            via = 'wallet'      # a bare extended key with a shared prefix does not say which family it belongs to
        if via == 'wallet':
            ok, pm = self.call(wi, 'public_master', lambda: h.public_master(account_id=acc).wif)
        else:
            # the account public key exported from the master key object (any witness type can be asked of one master
            # key); the watch-only wallet is then created from that extended key alone - its prefix says what it is
            def export():
                from bitcoinlib.keys import HDKey
                mk = HDKey(self.xprv(wi.ref['master']), network=self.network)
                return mk.public_master(account_id=acc, witness_type=wi.wt).wif()
            ok, pm = self.call(wi, 'hdkey_public_master', export)
        if not ok:
            return
        w.op('watch_only_wallet', source=wi.name, account=acc, via=via)
        acc_node = wi.ref['master'].derive("m/%d'/%d'/%d'" % (PURPOSE[wi.wt], self.coin, acc))
        want = acc_node.neuter().ser_public(rcodec.NETWORKS[self.network]['xkeys'][FAMILY[wi.wt]][0])
        if pm != want:
            w.violation('account_xpub_not_from_bip32_derivation', {'witness': wi.wt},
                        'public_master().wif %s... reference %s...' % (str(pm)[:24], want[:24]))
        wo = WInfo('watch%d_%s' % (len(self.wallets), wi.name), 'watch', wi.wt, self.network,
                   os.path.join(self.w.scratch, 'watch%d.sqlite' % len(self.wallets)), wi.cache)
        wo.ref = {'account_pub': acc_node.neuter(), 'master': wi.ref['master'], 'account': acc}
        wo.explicit = set()
        wo.accounts = {acc}
        kw = {'witness_type': wi.wt} if via == 'wallet' else {}
        ok, ww = self.call(wo, 'create_watch', lambda: self.BW.Wallet.create(
            wo.name, keys=pm, network=self.network, db_uri=wo.db, db_cache_uri=wo.cache, **kw))
        if not ok:
            w.probe('watch_only_create_failed')
            return
        wo.handles = [ww]
        self.wallets.append(wo)
        w.outcome('created', wallet=wo.name)
        self.listing(wo, ww)

    def op_rebuild(self, wi):
        """Recreate the wallet in a new database from the same master key and ask for the same keys."""
        ch, w = self.ch, self.w
        if wi.kind not in ('hd', 'ms') or self.rebuilt >= 3:
            return
        h = self.H(wi)
        chains = self.listing(wi, h)
        if not chains:
            return
        self.rebuilt += 1
        db = os.path.join(self.w.scratch, 'rebuild%d.sqlite' % self.rebuilt)
        w.op('rebuild', wallet=wi.name, n_chains=len(chains))
        name = 'rebuilt%d' % self.rebuilt
        if wi.kind == 'hd':
            how = ch.pick('rebuild_from', ['xprv', 'wif_export'])
            keyarg = self.xprv(wi.ref['master'])   # reference master key (for mnemonic wallets: from the BIP39 seed)
            if how == 'wif_export':
                ok, keyarg2 = self.observe(lambda: h.wif(is_private=True))
                if ok and keyarg2:
                    keyarg = keyarg2
            ok, r = self.call(wi, 'rebuild', lambda: self.BW.Wallet.create(
                name, keys=keyarg, network=self.network, witness_type=wi.wt, db_uri=db, db_cache_uri=wi.cache))
        else:
            keys = []
            for j, mk in enumerate(wi.ref['masters']):
                if j < wi.ref['n_priv']:
                    keys.append(self.xprv(mk))
                else:
                    keys.append(mk.derive(wi.ref['acc_path']).neuter().ser_public(
                        rcodec.NETWORKS[self.network]['xkeys'][MS_FAMILY[wi.wt]][0]))
            order = ch.perm('rebuild_order', len(keys))
            keys = [keys[i] for i in order]
            ok, r = self.call(wi, 'rebuild', lambda: self.BW.Wallet.create(
                name, keys=keys, sigs_required=wi.m, network=self.network, witness_type=wi.wt,
                cosigner_id=0, db_uri=db, db_cache_uri=wi.cache))
        if not ok:
            w.probe('rebuild_failed')
            return
        n = 0
        for chain, c in sorted(chains.items(), key=lambda kv: str(kv[0])):
            acc, wt, chg, cos = chain
            for idx, (kid, addr, path) in sorted(c.items())[:6]:
                def get():
                    if acc and wi.kind == 'hd' and acc not in [a for a in r.accounts()]:
                        r.new_account(account_id=acc, witness_type=wt)
                    kw = {'witness_type': wt} if wt != wi.wt else {}
                    return r.key_for_path([chg, idx], account_id=acc, cosigner_id=cos, **kw)
                ok, k2 = self.observe(get)
                if not ok:
                    w.probe('rebuild_key_failed')
                    w.note('rebuild key_for_path failed: %r' % (k2,))
                    continue
                n += 1
                if k2.address != addr:
                    w.violation('rebuilt_wallet_differs', {'wallet_kind': wi.kind, 'witness': wt},
                                '%s: chain %s index %d: original %s (%s), rebuilt %s (%s)' %
                                (wi.name, chain, idx, addr, path, k2.address, k2.path))
        w.outcome('rebuilt', compared=n)
        self.close_handle(r)

    NET2 = {'bitcoin': 'testnet', 'testnet': 'bitcoin', 'litecoin': 'bitcoin', 'litecoin_testnet': 'testnet',
            'bitcoinlib_test': 'bitcoin'}

    def op_second_network(self, wi):
        """One wallet, keys on two networks: an account on a second network, then keys of that network through every
        issuing call that takes a network.  Each returned key must lie at the second network's coin type, carry that
        network and its address format, and hold the key material of the reference derivation at that path."""
        ch, w = self.ch, self.w
        if wi.kind != 'hd':
            return self.op_issue(wi)
        h = self.H(wi)
        net2 = self.NET2[self.network]
        coin2 = rcodec.NETWORKS[net2]['coin_type']

        def check(k, api, want_change):
            sig = {'where': api, 'wallet_kind': wi.kind, 'network': 'second'}
            if k.network.name != net2:
                w.violation('key_on_other_network', {'api': api},
                            '%s: asked a key on %s, got %s on %s (%s)' % (wi.name, net2, k.path, k.network.name, k.address))
                return
            if k.depth != 5:
                return
            acc, chg, idx = k.account_id or 0, k.change or 0, k.address_index
            want = "m/%d'/%d'/%d'/%d/%d" % (PURPOSE[wi.wt], coin2, acc, chg, idx)
            if k.path != want:
                w.violation('key_not_at_documented_path', dict(sig, field='path'),
                            '%s: wallet says %s, template for (%s, account %d, change %d, index %d) is %s' %
                            (wi.name, k.path, net2, acc, chg, idx, want))
                return
            if want_change is not None and chg != want_change:
                w.violation('wrong_chain', {'api': api}, '%s: asked change %d on %s, got %s' % (wi.name, want_change, net2, k.path))
            node = wi.ref['master'].derive(want)
            addr = ref_pub_to_address(node.pub, wi.wt, net2)
            if k.address != addr:
                w.violation('address_not_from_bip32_derivation', dict(sig, witness=wi.wt),
                            '%s: %s has address %s, reference derivation on %s gives %s' % (wi.name, k.path, k.address, net2, addr))
            if k.key_public is not None and bytes(k.key_public) != node.pub:
                w.violation('key_material_not_from_bip32_derivation', dict(sig, field='public'),
                            '%s: public key differs from reference derivation' % k.path)
            w.probe('second_network_key_checked')
        accs = getattr(wi, 'net2_accounts', None)
        if not accs:
            w.op('new_account', wallet=wi.name, network=net2)
            ok, k = self.call(wi, 'new_account', lambda: h.new_account(network=net2))
            if not ok:
                return
            w.outcome('account', id=k.account_id, path=k.path, network=k.network.name)
            want = "m/%d'/%d'/%d'" % (PURPOSE[wi.wt], coin2, k.account_id or 0)
            if k.path != want or k.network.name != net2:
                w.violation('key_not_at_documented_path', {'where': 'new_account', 'wallet_kind': wi.kind, 'field': 'path',
                                                           'network': 'second'},
                            'account key of %s at %s on %s, template %s' % (net2, k.path, k.network.name, want))
            wi.net2_accounts = {k.account_id or 0}
            return
        acc = sorted(accs)[0]
        how = ch.pick('issue2', ['new_key', 'new_key_change', 'get_key', 'get_key_change', 'get_keys', 'get_keys_change',
                                 'get_key_change', 'new_keys'])
        w.op(how, wallet=wi.name, account=acc, network=net2)
        calls = {
            'new_key': (lambda: h.new_key(account_id=acc, network=net2), 0),
            'new_key_change': (lambda: h.new_key_change(account_id=acc, network=net2), 1),
            'get_key': (lambda: h.get_key(account_id=acc, network=net2), 0),
            'get_key_change': (lambda: h.get_key_change(account_id=acc, network=net2), 1),
            'get_keys': (lambda: h.get_keys(account_id=acc, network=net2, number_of_keys=2), 0),
            'get_keys_change': (lambda: h.get_keys_change(account_id=acc, network=net2, number_of_keys=2), 1),
            'new_keys': (lambda: h.new_keys(account_id=acc, network=net2, number_of_keys=2), 0),
        }
        fn, chg = calls[how]
        ok, r = self.call(wi, how, fn)
        if not ok:
            return
        ks = r if isinstance(r, list) else [r]
        w.outcome('keys', paths=[k.path for k in ks], network=[k.network.name for k in ks])
        for k in ks:
            check(k, how, chg)
            if (k.account_id or 0) != acc and k.network.name == net2:
                w.violation('wrong_chain', {'api': how}, '%s: asked account %d on %s, got %s' % (wi.name, acc, net2, k.path))

    def op_extra(self, kind, wi):
        getattr(self, 'op_' + kind)(wi)

    def after_op(self, kind, wi):
        if self.ch.coin('observe', 0.35):
            for x in self.wallets:
                self.listing(x, self.H(x))

    def finish(self):
        self.w.op('final_check')
        for x in self.wallets:
            ok, f = self.observe(lambda: self.open_handle(x))
            if not ok:
                self.w.violation('wallet_does_not_reopen', {}, '%s: %r' % (x.name, f))
            self.listing(x, f)
            self.close_handle(f)


def run(world):
    sim = C09World(world)
    world.debug_ns = {'sim': sim}
    while sim.ch.next_op():
        sim.step()
    sim.ch.tail_block()
    sim.finish()
