"""Registry of checks: property -> arms (scenario module + per-tier budgets), level, evidence texts.
Importing this module must not import bitcoinlib."""

REAL = ['bitcoinlib.services.services.Service', 'bitcoinlib.services.services.Cache', 'bitcoinlib.db_cache (SQLAlchemy models)',
        'bitcoinlib.transactions', 'bitcoinlib.scripts', 'bitcoinlib.keys', 'bitcoinlib.blocks', 'SQLAlchemy', 'SQLite (files in /dev/shm)']
STUB_COMMON = ['blockchain (simkit.simchain.SimChain + ref.refnode verdicts)', 'clock (module-attribute patch of time/datetime in bitcoinlib modules)',
               'entropy (os.urandom / random._urandom replaced, random and numpy.random seeded per run)']

WALLET_REAL = ['bitcoinlib.wallets (Wallet, WalletKey, WalletTransaction)', 'bitcoinlib.transactions', 'bitcoinlib.keys',
               'bitcoinlib.scripts', 'bitcoinlib.services.services (Service, Cache)', 'bitcoinlib.db / db_cache (SQLAlchemy models)',
               'SQLAlchemy', 'SQLite (files in /dev/shm)']
WALLET_STUB = ['provider client classes (simkit.providers.SimClient*, subclasses of the real BaseClient)'] + STUB_COMMON + [
    'storage faults at the Session.commit seam (commit failure, crash + dirty restart); no torn pages (no SQLite VFS available)']

SPECS = {
    'C20': {
        'property': 'C20',
        'level': 'fault_enumeration',
        'arms': [{
            'name': 'service',
            'module': 'scenarios.c20_service',
            'fault_kinds': ['prov_raise', 'prov_ctor_raise', 'prov_false', 'prov_empty', 'prov_malformed', 'prov_stale',
                            'prov_slow', 'clock_jump', 'cache_partial'],
            'tiers': {
                'quick': {'runs': 700, 'budget_s': 100, 'run_timeout_s': 120, 'shrink_budget_s': 60,
                          'params': {'slice_p': 0.35}},
                'thorough': {'runs': 30000, 'budget_s': 1500, 'run_timeout_s': 300, 'shrink_budget_s': 180,
                             'params': {'slice_p': 0.5}},
            },
        }, {
            'name': 'http',
            'module': 'scenarios.c20_service',
            'fault_kinds': ['http_status_500', 'http_status_429', 'http_status_404', 'http_status_503_html', 'http_timeout',
                            'http_conn_error', 'http_status_204', 'http_status_202', 'http_status_302', 'http_html_200', 'http_truncated_json', 'http_json_null',
                            'http_json_error_object', 'http_empty_body', 'clock_jump', 'cache_partial'],
            'tiers': {
                'quick': {'runs': 200, 'budget_s': 45, 'run_timeout_s': 120, 'shrink_budget_s': 40,
                          'params': {'slice_p': 0.3, 'layer': 'http'}},
                'thorough': {'runs': 8000, 'budget_s': 600, 'run_timeout_s': 300, 'shrink_budget_s': 120,
                             'params': {'slice_p': 0.5, 'layer': 'http'}},
            },
        }],
        'rule': ('one run = one seeded history of 12-40 Service queries / simulator events (mine, clock advance, cache wipe, '
                 'new Service, background chain spend) over k<=4 simulated providers whose every invocation outcome is drawn '
                 'from {ok, raise(5 exception types), False, empty, malformed, stale view, slow/timeout}; followed (p=0.35 quick) '
                 'by one exhaustively enumerated slice (all {ok,raise,False,empty}^k outcome assignments x all k! priority orders '
                 'for one method) and a fault-free liveness phase. Besides the failover and no-fabrication oracles per query: a block '
                 'count served without a provider execution is no older than the documented life times; the cache part of '
                 'gettransactions(after_txid=X) is the run of the stored history after X (honest-view runs); successful queries are '
                 'replayed with every provider down and compared with the stored answers. A run is non-trivial when it executed >= 5 Service queries of '
                 'which >= 1 returned data; distinct = distinct event-log digests.'),
        'state_measure': 'distinct (method, tuple of provider outcome kinds in call order, returned?, #untried providers) per _provider_execute execution',
        'components': {'real': REAL, 'stub': ['provider client classes (simkit.providers.SimClient*, subclasses of the real BaseClient)'] + STUB_COMMON,
                       'layer_b': 'arm http: real bitcoinlib.services.blockstream.BlockstreamClient, bitcoinlib.services.mempool.MempoolClient and '
                                  'BaseClient.request over a fake HTTP transport (simkit.httpsim: Esplora endpoints served from the SimChain); '
                                  'the other provider client modules are not executed'},
        'assumptions': [
            'provider stubs stand in for the ~20 real provider clients; they return the same object shapes (Transaction objects, utxo dicts, block dicts) the real clients build',
            'an answer is any return value other than False; exceptions and False are failures (as Service._provider_execute defines them)',
            'arm http: the fake server follows the published Esplora API (newest first; up to 50 mempool + 25 confirmed transactions per first page, 25 per following page; outspend; fee-estimates / v1/fees/recommended); a call in which a request failed outright (status >= 400, time-out, refused) must raise, a call that passes a corrupted 200 body on counts as a malformed answer',
            'the exhaustive claim is limited to the slices listed under coverage.exhaustive_slices; everything else is seeded sampling',
            'reference code under /verif/ref is trusted after passing its published-vector and mainnet-block self-test',
        ],
    },
    'C08': {
        'property': 'C08',
        'level': 'exploration',
        'arms': [{
            'name': 'ledger',
            'module': 'scenarios.c08_ledger',
            'fault_kinds': ['prov_raise', 'prov_false', 'prov_stale', 'bcast_lost_reply', 'db_commit_fail', 'crash',
                            'multi_handle', 'drop_handle', 'gc_collect'],
            'tiers': {
                'quick': {'runs': 320, 'budget_s': 90, 'run_timeout_s': 150, 'shrink_budget_s': 70,
                          'params': {'focus': 'C08'}},
                'thorough': {'runs': 12000, 'budget_s': 1200, 'run_timeout_s': 180, 'shrink_budget_s': 240,
                             'params': {'focus': 'C08'}},
            },
        }, {
            'name': 'crashsweep',
            'module': 'scenarios.c08_ledger',
            'fault_kinds': ['crash'],
            'tiers': {
                'quick': {'runs': 40, 'budget_s': 35, 'run_timeout_s': 120, 'shrink_budget_s': 40,
                          'params': {'focus': 'C08', 'arm': 'crashsweep'}},
                'thorough': {'runs': 3000, 'budget_s': 600, 'run_timeout_s': 240, 'shrink_budget_s': 120,
                             'params': {'focus': 'C08', 'arm': 'crashsweep'}},
            },
        }],
        'rule': ('one run = one seeded history of 10-36 wallet operations (keys, fund, utxos_update / transactions_update / scan / '
                 'utxo_add, send / send_to / sweep with drawn amounts, fees, change counts and broadcast flag, later send of an '
                 'unsent transaction, import as raw/dict/object, delete, remove_unconfirmed, bumpfee, read-only listings / exports / info(), reopen / second handle / drop / gc, mine, clock) on 1-2 wallets (HD - in 30 % of the runs with a second account -, single-key, m-of-n multisig; segwit / p2sh-segwit / legacy; one or two '
                 'database files) with provider, commit-failure and crash faults; incoming transactions come with version 1 or 2 and with or without a locktime; ledger invariants (per account where there are two) and reload fidelity of own and incoming transactions checked on the live handle after most operations and on a freshly opened handle periodically and at the end. Arm crashsweep: a fault-free history, '
                 'then ONE operation (send / sweep / update / delete / bumpfee / new_key / utxo_add) re-executed from a snapshot once '
                 'per crash point (before and after every wallet-database commit), dirty restart and full check on a fresh handle '
                 'each time - the crash points of that operation are enumerated completely. Non-trivial: >= 5 operations and >= 1 '
                 'successful library call; distinct = distinct event-log digests.'),
        'state_measure': 'distinct (wallet kind, witness type, #utxos bucket, #handles, #acknowledged-spent bucket, last operation kind)',
        'components': {'real': WALLET_REAL, 'stub': WALLET_STUB},
        'assumptions': [
            'crash = process death between SQLite commits (SQLite atomic commit is trusted); an interrupted operation is unacknowledged',
            'a send is acknowledged when send()/send_to()/sweep() returns with pushed == True; a broadcast whose reply was lost is not',
            'operation-granularity interleaving of handles only (the library documents no thread safety)',
            'reference code under /verif/ref is trusted after its self-test',
        ],
    },
    'C07': {
        'property': 'C07',
        'level': 'exploration',
        'arms': [{
            'name': 'create',
            'module': 'scenarios.c07_create',
            'fault_kinds': ['prov_raise', 'prov_false', 'prov_stale', 'bcast_lost_reply', 'db_commit_fail', 'crash'],
            'tiers': {
                'quick': {'runs': 400, 'budget_s': 110, 'run_timeout_s': 150, 'shrink_budget_s': 70,
                          'params': {'focus': 'C07'}},
                'thorough': {'runs': 12000, 'budget_s': 1500, 'run_timeout_s': 180, 'shrink_budget_s': 240,
                             'params': {'focus': 'C07'}},
            },
        }],
        'rule': ('one run = one seeded history of 10-36 wallet operations weighted towards transaction requests (send / send_to / '
                 'sweep single and multi target / bumpfee / later send) on funded wallets of every kind, requests in int / Value / string amount forms, with Address objects, max_utxos, input_key_id, locktime, fixed output order and explicit input lists (entries as tuples, (txid, n) pairs or Input objects; valid, too small, far too large, with a repeated entry, with an output the wallet already spent), with fees explicit / automatic / named coming from simulated providers through the cache and clock; every returned transaction is '
                 'checked as object and as serialization (reference parser, chain prevout values). Non-trivial: >= 5 operations '
                 'and >= 1 successful library call; distinct = distinct event-log digests.'),
        'state_measure': 'distinct (wallet kind, witness type, request api, #inputs bucket, #outputs bucket, fee argument, stage)',
        'components': {'real': WALLET_REAL, 'stub': WALLET_STUB},
        'assumptions': [
            'fee-rate bounds are checked on the signed virtual size with a 25% band (the library decides on an estimated size)',
            'change ownership is decided by reference BIP32 derivation of the wallet change chain (issued count + 6)',
            'reference code under /verif/ref is trusted after its self-test',
        ],
    },
    'C09': {
        'property': 'C09',
        'level': 'exploration',
        'arms': [{
            'name': 'keys',
            'module': 'scenarios.c09_keys',
            'fault_kinds': ['prov_raise', 'prov_false', 'prov_stale', 'db_commit_fail', 'crash', 'multi_handle', 'drop_handle',
                            'gc_collect'],
            'tiers': {
                'quick': {'runs': 400, 'budget_s': 110, 'run_timeout_s': 150, 'shrink_budget_s': 70,
                          'params': {'focus': 'C09'}},
                'thorough': {'runs': 12000, 'budget_s': 1500, 'run_timeout_s': 180, 'shrink_budget_s': 240,
                             'params': {'focus': 'C09'}},
            },
        }],
        'rule': ('one run = one seeded history of 10-36 key operations (new_key / new_key_change / get_key / get_key_change, bulk '
                 'get_keys / new_keys, explicit key_for_path (relative, or the full path as a string naming another account than the default) / address_index / keys_for_path with number_of_keys, new_account, an account and keys on a second network, switching the default account, import of an unrelated key, keys of another witness type in the same '
                 'wallet, scan with funded gaps, mark-used, reopen / second handle / drop / gc, rebuild in a new database from the '
                 'same master material with permuted cosigner keys, watch-only wallet from the exported account xpub) on HD, '
                 'single-key, multisig and watch-only wallets (HD wallets from extended keys and from BIP39 sentences with / without passphrase) over 5 networks x 3 witness types, with commit-failure and crash faults; '
                 'every returned and listed key is compared with reference BIP32 derivation at the documented path. Non-trivial: '
                 '>= 5 operations and >= 1 successful library call; distinct = distinct event-log digests.'),
        'state_measure': 'n/a (digests only)',
        'components': {'real': WALLET_REAL, 'stub': WALLET_STUB},
        'assumptions': [
            'path templates m/44|49|84\'/coin\'/account\'/change/index, m/45\'/cosigner/change/index, m/48\'/coin\'/account\'/1|2\'/change/index are written out in the oracle',
            'network constants (version bytes, hrp, SLIP-44 coin types) come from /verif/ref/codec.py, cross-checked against the BIPs; bitcoinlib_test values are the library\'s own',
            'an issuing call interrupted by a commit failure or crash is unacknowledged; the index model is re-read from keys() before every issuing call',
        ],
    },
    'C10': {
        'property': 'C10',
        'level': 'exploration',
        'arms': [{
            'name': 'ceremony',
            'module': 'scenarios.ceremony_world',
            'fault_kinds': ['msg_drop', 'msg_dup', 'msg_reorder', 'msg_corrupt', 'prov_raise', 'prov_false', 'bcast_lost_reply'],
            'tiers': {
                'quick': {'runs': 260, 'budget_s': 110, 'run_timeout_s': 120, 'shrink_budget_s': 80,
                          'params': {'focus': 'C10', 'max_n': 4}},
                'thorough': {'runs': 6000, 'budget_s': 1500, 'run_timeout_s': 240, 'shrink_budget_s': 240,
                             'params': {'focus': 'C10', 'max_n': 15}},
            },
        }],
        'rule': ('one run = one ceremony: m-of-n (n<=4 quick, <=15 thorough) cosigners, 2-3 of them real wallets in separate '
                 'databases created from independently permuted key lists, the rest external signers; then 8-24 events: ask parties for the key at an explicit path, for the next key or for several keys at once of an explicit cosigner branch, fund, create a spend, sign (holder / external cosigner / foreign key), '
                 'hand a copy over as object / dict / raw hex through a channel that drops, duplicates and reorders, import, '
                 'send, tamper, reopen a party wallet from its database. After every event every touched copy is judged by the library (verify / verified / pushed) and '
                 'by the reference node against the real previous output. Non-trivial: >= 5 events and >= 1 successful library '
                 'call; distinct = distinct event-log digests.'),
        'state_measure': 'distinct (witness type, m, n, #signers bucket, tampered, library verdict, node verdict, last hand-off form)',
        'components': {'real': WALLET_REAL, 'stub': WALLET_STUB + ['channel between cosigners (simulator: delay, drop, duplicate, reorder, corrupt)']},
        'assumptions': [
            'a cosigner counts as having signed a copy when a library sign call with its key returned without exception on that copy or an ancestor',
            '"valid" means accepted by the reference node against the real previous output (script hash, signature order, dummy element)',
            'at most 3 cosigners are wallet parties; the others sign through Transaction.sign(hdkey) as external signers',
        ],
    },
    'C02': {
        'property': 'C02',
        'level': 'exploration',
        'arms': [{
            'name': 'verify',
            'module': 'scenarios.ceremony_world',
            'fault_kinds': ['msg_corrupt', 'msg_drop', 'msg_dup', 'msg_reorder'],
            'tiers': {
                'quick': {'runs': 320, 'budget_s': 110, 'run_timeout_s': 120, 'shrink_budget_s': 80,
                          'params': {'focus': 'C02', 'max_n': 3}},
                'thorough': {'runs': 8000, 'budget_s': 1500, 'run_timeout_s': 240, 'shrink_budget_s': 240,
                             'params': {'focus': 'C02', 'max_n': 5}},
            },
        }],
        'rule': ('one run = one signing / tampering history over transactions created by real wallets (single-signer P2PKH / '
                 'P2WPKH / P2SH-P2WPKH and m-of-n P2SH / P2WSH / P2SH-P2WSH): sign with subsets of the right keys over several '
                 'calls, re-sign, sign with a foreign key, export / import as object, dict and raw, serialize -> parse -> re-attach '
                 'values, a search for single-signer spends with a signature of 70 bytes or less (built and signed through the plain Transaction API, then round-tripped), 15 kinds of single-field tampering of the object and 9 of the wire form (also to 0; edits of committed fields are judged on the bytes that arrived), rounds in which the missing cosigners sign one per call in a drawn order, and single-signer transactions rebuilt from public keys and signed with one address key per call; after every event verify() is compared with the reference '
                 'node\'s per-input count of valid signatures by distinct keys of the previous output\'s key set. Non-trivial: '
                 '>= 5 events and >= 1 successful library call; distinct = distinct event-log digests.'),
        'state_measure': 'distinct (witness type, m, n, #signers bucket, tampered, library verdict, node verdict, last hand-off form)',
        'components': {'real': WALLET_REAL, 'stub': WALLET_STUB},
        'assumptions': [
            'soundness is judged against the previous output on the simulated chain (m and key set come from its script, never from the spending transaction)',
            'tampering edits the transaction object the way an in-process attacker or a buggy caller would (tamper) and the serialized form in transit (tamper_wire: hash-type byte, a byte of a DER signature or public key, amount, sequence, locktime), which the library then parses',
        ],
    },
    'C15': {
        'property': 'C15',
        'level': 'exploration',
        'arms': [{
            'name': 'bip38',
            'module': 'scenarios.c15_bip38',
            'fault_kinds': ['entropy_fail', 'msg_corrupt'],
            'tiers': {
                'quick': {'runs': 220, 'budget_s': 100, 'run_timeout_s': 120, 'shrink_budget_s': 60, 'params': {}},
                'thorough': {'runs': 4000, 'budget_s': 900, 'run_timeout_s': 240, 'shrink_budget_s': 200, 'params': {}},
            },
        }],
        'rule': ('one run = one process-lifetime history of 4-9 BIP38 operations (intermediate passphrase with / without lot+sequence '
                 'and explicit salt, new EC-multiplied encrypted key with / without explicit seed, encrypt a fresh Key/HDKey or a private key with a drawn byte shape (last byte 01 / 00, leading zero bytes, 1, n-1), decrypt '
                 'with the right / a wrong / a differently composed passphrase, decrypt a string with one changed character, other '
                 'entropy users in between, entropy source failing, parent and forked child both generating) over a simulated entropy '
                 'source that never repeats and counts the bytes drawn inside each call. Non-trivial: >= 4 operations, >= 2 successful '
                 'library calls; distinct = distinct event-log digests.'),
        'state_measure': 'n/a (digests only)',
        'components': {'real': ['bitcoinlib.keys (bip38_*, Key, HDKey)', 'bitcoinlib.mnemonic', 'scrypt / pycryptodome AES'],
                       'stub': ['entropy source (os.urandom, random._urandom)', 'process fork re-keys the simulated source']},
        'assumptions': [
            'a generation call that draws no bytes from the entropy source during the call cannot be fresh',
            'agreement with the BIP38 specification is checked against an independent implementation (ref/bip38.py; AES-256 written out, scrypt from hashlib) that reproduces the nine vectors published in BIP-0038: plain-mode encryptions are compared string for string, decryptions and created EC-multiplied keys by key, compression flag, address hash and lot/sequence',
        ],
    },
    'C16': {
        'property': 'C16',
        'level': 'exploration',
        'arms': [{
            'name': 'objects',
            'module': 'scenarios.c16_public',
            'fault_kinds': [],
            'tiers': {
                'quick': {'runs': 1200, 'budget_s': 60, 'run_timeout_s': 120, 'shrink_budget_s': 40, 'params': {'arm': 'objects'}},
                'thorough': {'runs': 40000, 'budget_s': 700, 'run_timeout_s': 120, 'shrink_budget_s': 120, 'params': {'arm': 'objects'}},
            },
        }, {
            'name': 'storage',
            'module': 'scenarios.c16_public',
            'config_common': {'database_encryption_enabled': 'True'},
            'library_logging': True,
            'env': {'DB_FIELD_ENCRYPTION_KEY': '11aa22bb33cc44dd55ee66ff77008899aabbccddeeff00112233445566778899'},
            'fault_kinds': ['crash'],
            'tiers': {
                'quick': {'runs': 140, 'budget_s': 40, 'run_timeout_s': 150, 'shrink_budget_s': 40, 'params': {'arm': 'storage'}},
                'thorough': {'runs': 4000, 'budget_s': 500, 'run_timeout_s': 180, 'shrink_budget_s': 120, 'params': {'arm': 'storage'}},
            },
        }, {
            'name': 'storage_pw',
            'module': 'scenarios.c16_public',
            'config_common': {'database_encryption_enabled': 'True'},
            'library_logging': True,
            'env': {'DB_FIELD_ENCRYPTION_PASSWORD': 'correct horse battery staple (verif)'},
            'fault_kinds': ['crash'],
            'tiers': {
                'quick': {'runs': 80, 'budget_s': 30, 'run_timeout_s': 150, 'shrink_budget_s': 40, 'params': {'arm': 'storage'}},
                'thorough': {'runs': 2000, 'budget_s': 300, 'run_timeout_s': 180, 'shrink_budget_s': 120, 'params': {'arm': 'storage'}},
            },
        }],
        'rule': ('objects arm: one run = 1-3 subjects (Key, HDKey master / child of every witness type, private HD Wallet opened on the master key or on the account-level private key) and 5-14 '
                 'rounds of [0-4 priming calls drawn in any order: wif / wif_key / wif_private / as_dict(include_private) / info / '
                 'deepcopy / pickle / subkey / public_master(as_private) / ...] followed by the public views (public(), '
                 'public_master(), wif_public() also under explicit version bytes / witness type, Wallet.wif(is_private=False), WalletKey.public(), default as_dict / as_json / repr / '
                 'str / info, watch-only wallet from the export; the address object of the private key and a transaction signed with it: default dictionary, JSON, repr, printed form; the wallet\'s listings); storage arm (field encryption on): one run = a wallet history '
                 '(keys, fund, update, send, reopen, crash) with scans of the database file, its journal and the library\'s log file (shipped logging defaults) at commit points, after '
                 'crashes and reopening, and of the default text forms of the transactions it creates; arm storage_pw is the storage arm with the key given as DB_FIELD_ENCRYPTION_PASSWORD. Non-trivial: >= 4 operations and >= 2 successful; distinct = distinct event-log digests.'),
        'state_measure': 'n/a (digests only)',
        'components': {'real': WALLET_REAL + ['bitcoinlib.db EncryptedBinary / EncryptedString (pycryptodome AES)'],
                       'stub': WALLET_STUB},
        'assumptions': [
            'registered encodings per private key: 32 raw bytes, lower/upper hex, decimal, Python int (attribute walk), WIF compressed/uncompressed, extended private key under every prefix of the network (string and 78-byte payload)',
            'ORM sessions, engines and DbKey/DbWallet back-references are not followed by the attribute walk (database handles, not the exported object)',
            'Key.info()/HDKey.info() and WalletKey/DbKey repr of *private* objects print secrets by design; only recorded as known findings',
        ],
    },
}
