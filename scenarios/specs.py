"""Registry of checks: property -> arms (scenario module + per-tier budgets), level, evidence texts.
Importing this module must not import bitcoinlib."""

REAL = ['bitcoinlib.services.services.Service', 'bitcoinlib.services.services.Cache', 'bitcoinlib.db_cache (SQLAlchemy models)',
        'bitcoinlib.transactions', 'bitcoinlib.scripts', 'bitcoinlib.keys', 'bitcoinlib.blocks', 'SQLAlchemy', 'SQLite (files in /dev/shm)']
STUB_COMMON = ['blockchain (simkit.simchain.SimChain + ref.refnode verdicts)', 'clock (module-attribute patch of time/datetime in bitcoinlib modules)',
               'entropy (os.urandom / random._urandom replaced, random and numpy.random seeded per run)']

SPECS = {
    'C20': {
        'property': 'C20',
        'level': 'fault_enumeration',
        'arms': [{
            'name': 'service',
            'module': 'scenarios.c20_service',
            'fault_kinds': ['prov_raise', 'prov_false', 'prov_empty', 'prov_malformed', 'prov_stale', 'prov_slow',
                            'clock_jump', 'cache_partial'],
            'tiers': {
                'quick': {'runs': 700, 'budget_s': 100, 'run_timeout_s': 60, 'shrink_budget_s': 60,
                          'params': {'slice_p': 0.35}},
                'thorough': {'runs': 30000, 'budget_s': 1500, 'run_timeout_s': 120, 'shrink_budget_s': 180,
                             'params': {'slice_p': 0.5}},
            },
        }],
        'rule': ('one run = one seeded history of 12-40 Service queries / simulator events (mine, clock advance, cache wipe, '
                 'new Service, background chain spend) over k<=4 simulated providers whose every invocation outcome is drawn '
                 'from {ok, raise(5 exception types), False, empty, malformed, stale view, slow/timeout}; followed (p=0.35 quick) '
                 'by one exhaustively enumerated slice (all {ok,raise,False,empty}^k outcome assignments x all k! priority orders '
                 'for one method) and a fault-free liveness phase. A run is non-trivial when it executed >= 5 Service queries of '
                 'which >= 1 returned data; distinct = distinct event-log digests.'),
        'state_measure': 'distinct (method, tuple of provider outcome kinds in call order, returned?, #untried providers) per _provider_execute execution',
        'components': {'real': REAL, 'stub': ['provider client classes (simkit.providers.SimClient*, subclasses of the real BaseClient)'] + STUB_COMMON,
                       'layer_b': 'not built (real Blockstream/Mempool clients over a fake HTTP transport)'},
        'assumptions': [
            'provider stubs stand in for the ~20 real provider clients; they return the same object shapes (Transaction objects, utxo dicts, block dicts) the real clients build',
            'an answer is any return value other than False; exceptions and False are failures (as Service._provider_execute defines them)',
            'the exhaustive claim is limited to the slices listed under coverage.exhaustive_slices; everything else is seeded sampling',
            'reference code under /verif/ref is trusted after passing its published-vector and mainnet-block self-test',
        ],
    },
}
