"""Choice stream: the single source of every simulator decision (DESIGN.md 3.1).

The stream is segmented into *blocks*: block 0 holds the run's swarm configuration, every later
block holds the draws of one scheduled operation (its kind, arguments, and every fault decision
taken while it executes).  Replaying an edited list of blocks is always an executable history:
a label mismatch or an exhausted block yields the label's *simplest* value, indices are taken
modulo the current population, integers are clamped.  Deleting a block never shifts another block.
"""
import random


class Chooser:
    def __init__(self, seed, replay=None):
        self.seed = seed
        self.rng = random.Random(seed)
        self.replay = replay            # list of blocks (each a list of [label, value]) or None
        self.blocks = [[]]              # what was actually used (normalised), block 0 = config
        self._bi = 0
        self._pi = 0
        self.n_ops = 0
        self.draws = 0

    # -- block structure -------------------------------------------------------------------
    def set_ops(self, n):
        self.n_ops = n

    def next_op(self):
        """Open the next operation block; False when the history is over."""
        if self.replay is not None:
            if self._bi + 1 >= len(self.replay):
                return False
            nxt = self.replay[self._bi + 1]
            if nxt and nxt[0][0] == 'tail':
                return False
            self._bi += 1
            self._pi = 0
        else:
            if len(self.blocks) - 1 >= self.n_ops:
                return False
        self.blocks.append([])
        return True

    def tail_block(self):
        """Open the epilogue block (draws made after the last operation).  It is deletable like any block."""
        if self.replay is not None:
            for i in range(len(self.replay) - 1, 0, -1):
                if self.replay[i] and self.replay[i][0][0] == 'tail':
                    self._bi = i
                    self._pi = 1
                    break
            else:
                self._bi = len(self.replay)
                self._pi = 0
        self.blocks.append([['tail', 1]])

    # -- draws ------------------------------------------------------------------------------
    def _replayed(self, label):
        """Return (found, value) from the current replay block."""
        if self._bi >= len(self.replay):
            return False, None
        blk = self.replay[self._bi]
        j = self._pi
        while j < len(blk):
            if blk[j][0] == label:
                self._pi = j + 1
                return True, blk[j][1]
            j += 1
        return False, None

    def _rec(self, label, value):
        self.blocks[-1].append([label, value])
        self.draws += 1
        return value

    def int(self, label, lo, hi):
        """Integer in [lo, hi]; simplest = lo."""
        if hi < lo:
            hi = lo
        if self.replay is not None:
            ok, v = self._replayed(label)
            if not ok or not isinstance(v, int) or isinstance(v, bool):
                v = lo
            v = min(max(v, lo), hi)
        else:
            v = self.rng.randint(lo, hi)
        return self._rec(label, v)

    def index(self, label, n):
        """Index into a population of size n (n >= 1); simplest = 0; replay takes value mod n."""
        if n <= 0:
            raise ValueError("empty population for %s" % label)
        if self.replay is not None:
            ok, v = self._replayed(label)
            if not ok or not isinstance(v, int) or isinstance(v, bool):
                v = 0
            v %= n
        else:
            v = self.rng.randrange(n)
        return self._rec(label, v)

    def pick(self, label, options):
        """One of options; simplest = options[0]."""
        return options[self.index(label, len(options))]

    def weighted(self, label, pairs):
        """pairs = [(option, weight), ...]; simplest = first option.  Recorded value is the index."""
        if self.replay is not None:
            ok, v = self._replayed(label)
            if not ok or not isinstance(v, int) or isinstance(v, bool):
                v = 0
            v %= len(pairs)
        else:
            tot = sum(w for _, w in pairs)
            x = self.rng.random() * tot
            v = len(pairs) - 1
            acc = 0.0
            for i, (_, w) in enumerate(pairs):
                acc += w
                if x < acc:
                    v = i
                    break
        self._rec(label, v)
        return pairs[v][0]

    def coin(self, label, p):
        """True with probability p; simplest = False."""
        if self.replay is not None:
            ok, v = self._replayed(label)
            v = bool(v) if ok else False
        else:
            v = self.rng.random() < p
        return self._rec(label, v)

    def perm(self, label, n):
        """A permutation of range(n); simplest = identity."""
        if self.replay is not None:
            ok, v = self._replayed(label)
            if not ok or not isinstance(v, list) or sorted(v) != list(range(n)):
                v = list(range(n))
        else:
            v = list(range(n))
            self.rng.shuffle(v)
        return self._rec(label, v)

    def subset(self, label, n, p=0.5):
        """Subset of range(n) as sorted list; simplest = []."""
        if self.replay is not None:
            ok, v = self._replayed(label)
            if not ok or not isinstance(v, list):
                v = []
            v = sorted({x for x in v if isinstance(x, int) and 0 <= x < n})
        else:
            v = [i for i in range(n) if self.rng.random() < p]
        return self._rec(label, v)
