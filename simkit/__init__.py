"""simkit — deterministic simulation kernel for the bitcoinlib checks (see /verif/DESIGN.md section 3).

Nothing in this package imports bitcoinlib at module import time: the parent process of a check must
never import the library (configuration is read at import), only forked workers do.
"""
