"""Runner: parent / worker (zygote) / forked run, budgets, shrinking, replay, evidence (DESIGN.md 3.3-3.5).

The parent never imports bitcoinlib.  Each worker prepares its BCL_DATA_DIR, imports bitcoinlib from
VERIF_REPO and then forks one child per run; a run never sees state left by another run.
"""
import hashlib
import importlib
import json
import multiprocessing as mp
import os
import select
import shutil
import signal
import subprocess
import sys
import time
import traceback

VERIF = os.path.dirname(os.path.dirname(os.path.abspath(__file__)))
PY = '/venv/bin/python'


def run_seed(verif_seed, prop, arm, index):
    h = hashlib.sha256(('%d/%s/%s/%d' % (verif_seed, prop, arm, index)).encode()).digest()
    return int.from_bytes(h[:8], 'big')


def load_known():
    p = os.path.join(VERIF, 'known_findings.json')
    if not os.path.exists(p):
        return []
    with open(p) as f:
        return json.load(f)['findings']


# ---------------------------------------------------------------------------------------------
# worker side

def _prepare_datadir(base, wid, arm, repo):
    """Per-worker BCL_DATA_DIR: config.ini (logging off), providers.json placeholder, install.log so the
    library does not copy its shipped data files over ours."""
    d = os.path.join(base, 'w%d' % wid, 'data')
    os.makedirs(os.path.join(d, 'database'), exist_ok=True)
    opts = {'enable_bitcoinlib_logging': 'False', 'loglevel': 'CRITICAL'}
    if arm.get('library_logging'):
        opts = {'enable_bitcoinlib_logging': 'True', 'loglevel': 'WARNING'}     # the shipped defaults: file log in the data dir
    common = {'service_caching_enabled': 'True', 'allow_database_threads': 'True'}
    common.update(arm.get('config_common', {}))
    with open(os.path.join(d, 'config.ini'), 'w') as f:
        f.write('[locations]\ndatabase_dir=database\n\n[common]\n')
        for k, v in common.items():
            f.write('%s=%s\n' % (k, v))
        f.write('\n[logs]\n')
        for k, v in opts.items():
            f.write('%s=%s\n' % (k, v))
    with open(os.path.join(d, 'install.log'), 'w') as f:
        f.write('verif\n')
    with open(os.path.join(d, 'providers.json'), 'w') as f:
        f.write('{}')
    shutil.copyfile(os.path.join(repo, 'bitcoinlib', 'data', 'networks.json'), os.path.join(d, 'networks.json'))
    return d


def _import_library(repo, keep_logging=False):
    sys.path.insert(0, repo)
    import logging
    import bitcoinlib
    lib_file = os.path.realpath(bitcoinlib.__file__)
    if not lib_file.startswith(os.path.realpath(repo) + os.sep):
        raise RuntimeError("bitcoinlib imported from %s, expected under %s" % (lib_file, repo))
    if keep_logging:
        return bitcoinlib
    lg = logging.getLogger('bitcoinlib')
    lg.handlers = [logging.NullHandler()]
    lg.propagate = False
    lg.setLevel(logging.CRITICAL + 1)
    logging.getLogger().setLevel(logging.CRITICAL + 1)
    return bitcoinlib


def _execute(task, scen, base, wid, known):
    """Runs inside the forked child."""
    import gc
    gc.disable()
    from simkit.chooser import Chooser
    from simkit.world import World, StopRun, SimCrash, make_scratch
    scratch = make_scratch(os.path.join(base, 'w%d' % wid), 'run')
    ch = Chooser(task['seed'], replay=task.get('blocks'))
    world = World(task['prop'], ch, scratch, known_findings=known, keep_events=bool(task.get('events')))
    world.tier = task['tier']
    world.arm_params = task.get('arm_params', {})
    world.debug_src = getattr(scen, 'DEBUG_HOOK', None)
    err = None
    try:
        try:
            scen.run(world)
        except StopRun:
            pass
        except SimCrash:
            err = 'SimCrash escaped the scenario:\n' + traceback.format_exc()
        except Exception:
            err = traceback.format_exc()
    finally:
        try:
            world.commit_hook = None
            if world._installed:
                world.dirty_restart()
        except BaseException:
            pass
    res = world.result()
    if not task.get('want_trace') and not res['violations'] and not err:
        res['trace'] = []
        res['blocks'] = []
    if task.get('events'):
        res['events'] = world.log.events
    res['nontrivial'] = bool(scen.nontrivial(res)) if hasattr(scen, 'nontrivial') else True
    res['harness_error'] = err
    shutil.rmtree(scratch, ignore_errors=True)
    return res


def _run_in_child(task, scen, base, wid, known, timeout):
    r, w = os.pipe()
    pid = os.fork()
    if pid == 0:
        code = 0
        try:
            os.close(r)
            signal.signal(signal.SIGINT, signal.SIG_IGN)
            try:
                res = _execute(task, scen, base, wid, known)
            except BaseException:
                res = {'harness_error': 'child: ' + traceback.format_exc()}
            data = json.dumps(res).encode()
            with os.fdopen(w, 'wb') as f:
                f.write(data)
        except BaseException:
            code = 3
        finally:
            os._exit(code)
    os.close(w)
    chunks = []
    deadline = time.time() + timeout
    timed_out = False
    with os.fdopen(r, 'rb') as f:
        fd = f.fileno()
        os.set_blocking(fd, False)
        while True:
            left = deadline - time.time()
            if left <= 0:
                timed_out = True
                break
            rl, _, _ = select.select([fd], [], [], min(left, 1.0))
            if rl:
                try:
                    b = os.read(fd, 1 << 20)
                except BlockingIOError:
                    continue
                if not b:
                    break
                chunks.append(b)
    if timed_out:
        try:
            os.kill(pid, signal.SIGKILL)
        except ProcessLookupError:
            pass
    os.waitpid(pid, 0)
    shutil.rmtree(os.path.join(base, 'w%d' % wid, 'run'), ignore_errors=True)
    if timed_out:
        return {'harness_error': 'timeout after %ss' % timeout, 'timeout': True}
    try:
        return json.loads(b''.join(chunks).decode())
    except Exception:
        return {'harness_error': 'child died without a result (%d bytes)' % sum(len(c) for c in chunks)}


def worker_main(wid, arm, repo, base, taskq, resq, known):
    try:
        signal.signal(signal.SIGINT, signal.SIG_IGN)
        # exceptions in __del__ of half-built objects (deepcopy / unpickle attempts of the object walks) are not results
        sys.unraisablehook = lambda unraisable: None
        os.environ['TZ'] = 'UTC'
        time.tzset()
        d = _prepare_datadir(base, wid, arm, repo)
        os.environ['BCL_DATA_DIR'] = d
        for k, v in arm.get('env', {}).items():
            os.environ[k] = v
        for k in arm.get('env_unset', ['DB_FIELD_ENCRYPTION_KEY', 'DB_FIELD_ENCRYPTION_PASSWORD']):
            if k not in arm.get('env', {}):
                os.environ.pop(k, None)
        sys.path.insert(0, VERIF)
        _import_library(repo, keep_logging=bool(arm.get('library_logging')))
        scen = importlib.import_module(arm['module'])
        if hasattr(scen, 'init_worker'):
            scen.init_worker(d)
        resq.put(('ready', wid, None))
    except BaseException:
        resq.put(('dead', wid, traceback.format_exc()))
        return
    while True:
        task = taskq.get()
        if task is None:
            break
        t0 = time.time()
        res = _run_in_child(task, scen, base, wid, known, task.get('timeout', 60))
        res['wall'] = time.time() - t0
        resq.put(('res', task['id'], res))


class Pool:
    """J zygote workers for one arm."""

    def __init__(self, arm, repo, base, jobs, known):
        self.ctx = mp.get_context('fork')
        self.taskq = self.ctx.Queue()
        self.resq = self.ctx.Queue()
        self.procs = []
        for wid in range(jobs):
            p = self.ctx.Process(target=worker_main, args=(wid, arm, repo, base, self.taskq, self.resq, known),
                                 daemon=True)
            p.start()
            self.procs.append(p)
        ready = 0
        t0 = time.time()
        while ready < jobs:
            try:
                kind, wid, payload = self.resq.get(timeout=120)
            except Exception:
                raise RuntimeError("workers did not start within 120 s")
            if kind == 'dead':
                raise RuntimeError("worker %s failed to start:\n%s" % (wid, payload))
            ready += 1
        self.jobs = jobs
        self.startup_s = time.time() - t0

    def map(self, tasks, deadline=None, on_result=None):
        """Run tasks; returns {id: result}.  Tasks not started before the deadline are skipped."""
        results = {}
        pending = list(tasks)
        inflight = 0
        submitted = 0
        # keep at most `jobs` in flight so the deadline can cut the tail
        while pending or inflight:
            while pending and inflight < self.jobs:
                if deadline is not None and time.time() > deadline:
                    pending = []
                    break
                self.taskq.put(pending.pop(0))
                inflight += 1
                submitted += 1
            if not inflight:
                break
            try:
                kind, tid, res = self.resq.get(timeout=5)
            except Exception:
                if not any(p.is_alive() for p in self.procs):
                    raise RuntimeError("all workers died")
                continue
            if kind != 'res':
                continue
            inflight -= 1
            results[tid] = res
            if on_result:
                on_result(tid, res)
        return results

    def close(self):
        for _ in self.procs:
            self.taskq.put(None)
        for p in self.procs:
            p.join(timeout=5)
            if p.is_alive():
                p.kill()


# ---------------------------------------------------------------------------------------------
# shrinking (DESIGN.md 3.4)

def _same(v, target):
    return v['class'] == target['class'] and v['signature'] == target['signature']


def shrink(pool, base_task, blocks, target, budget_s=90, max_exec=240):
    """Delta-debug the block list while the same violation (class + signature) persists."""
    t_end = time.time() + budget_s
    execs = [0]

    def test_many(cands):
        """cands: list of block lists.  Returns index of first candidate that still fails, the normalised
        blocks it used, or (None, None)."""
        if not cands or time.time() > t_end or execs[0] >= max_exec:
            return None, None
        tasks = []
        for i, c in enumerate(cands):
            t = dict(base_task)
            t.update({'id': 'shr%d' % i, 'blocks': c, 'want_trace': True})
            tasks.append(t)
        execs[0] += len(tasks)
        res = pool.map(tasks)
        for i in range(len(cands)):
            r = res.get('shr%d' % i)
            if r and not r.get('harness_error') and any(_same(v, target) for v in r.get('violations', [])):
                return i, r
        return None, None

    cur = blocks
    best = None
    # pass 1: ddmin over operation blocks (block 0 = config stays)
    n = 2
    while len(cur) > 2 and time.time() < t_end and execs[0] < max_exec:
        ops = cur[1:]
        chunk = max(1, len(ops) // n)
        cands = []
        for s in range(0, len(ops), chunk):
            cands.append([cur[0]] + ops[:s] + ops[s + chunk:])
        i, r = test_many(cands)
        if i is not None:
            cur = cands[i]
            best = r
            n = max(n - 1, 2)
        else:
            if chunk == 1:
                break
            n = min(n * 2, len(ops))
    # pass 2: simplify individual draws (replace by the simplest value), two sweeps, no restarts
    def simple(val):
        if isinstance(val, bool):
            return False
        if isinstance(val, int):
            return 0
        return []

    for sweep in range(2):
        progress = False
        pos = [(bi, di) for bi in range(len(cur)) for di in range(len(cur[bi]))]
        i = 0
        while i < len(pos) and time.time() < t_end and execs[0] < max_exec:
            cands, where = [], []
            while i < len(pos) and len(cands) < pool.jobs:
                bi, di = pos[i]
                i += 1
                if bi >= len(cur) or di >= len(cur[bi]):
                    continue
                label, val = cur[bi][di]
                if val == simple(val) or label in ('op', 'tail', 'n_ops'):
                    continue
                nb = cur[bi][:di] + [[label, simple(val)]] + cur[bi][di + 1:]
                cands.append(cur[:bi] + [nb] + cur[bi + 1:])
                where.append((bi, di))
            if not cands:
                continue
            # accept every candidate of the batch that fails alone, re-checked cumulatively
            tasks_idx, r = test_many(cands)
            if tasks_idx is not None:
                bi, di = where[tasks_idx]
                cur = cands[tasks_idx]
                best = r
                progress = True
                # positions of this batch after the accepted one are retried in the next sweep
        if not progress:
            break
    return cur, best, execs[0]


# ---------------------------------------------------------------------------------------------
# parent side

def _vkey(v):
    return json.dumps([v['class'], v['signature']], sort_keys=True)


def run_check(spec, tier, verif_seed, jobs, repo, runs_override=None, budget_override=None, quiet=False,
              digests_only=False, write_evidence=True):
    """spec: registry entry.  Returns exit code."""
    prop = spec['property']
    known = load_known()
    t_start = time.time()
    base = '/dev/shm/verif-%d' % os.getpid() if os.path.isdir('/dev/shm') else \
        os.path.join(__import__('tempfile').gettempdir(), 'verif-%d' % os.getpid())
    shutil.rmtree(base, ignore_errors=True)
    os.makedirs(base)
    agg = {'evaluations': 0, 'nontrivial_digests': set(), 'digests': set(), 'ops': {}, 'faults': {}, 'probes': {},
           'state_sigs': set(), 'sim_time': 0.0, 'commit_points': 0, 'known_seen': {}, 'harness_errors': [],
           'timeouts': 0, 'samples': [], 'arms': {}, 'run_wall': 0.0, 'ops_total': 0, 'info': {}}
    violations = {}   # vkey -> dict(first occurrence)
    all_digests = {}
    exit_code = 0
    replays = []
    try:
        for arm in spec['arms']:
            if os.environ.get('VERIF_ONLY_ARM') and arm['name'] != os.environ['VERIF_ONLY_ARM']:
                continue        # development aid; ./check then writes no evidence
            tcfg = dict(arm['tiers'][tier])
            if runs_override is not None:
                tcfg['runs'] = runs_override
            if budget_override is not None:
                tcfg['budget_s'] = budget_override
            arm_base = os.path.join(base, arm['name'])
            os.makedirs(arm_base)
            pool = Pool(arm, repo, arm_base, jobs, known)
            try:
                tasks = []
                for i in range(tcfg['runs']):
                    tasks.append({'id': i, 'prop': prop, 'arm': arm['name'], 'tier': tier,
                                  'seed': run_seed(verif_seed, prop, arm['name'], i),
                                  'timeout': float(os.environ.get('VERIF_TEST_TIMEOUT', tcfg.get('run_timeout_s', 60))),
                                  'want_trace': i < 3,
                                  'arm_params': tcfg.get('params', {})})
                arm_stat = {'runs': 0, 'nontrivial': 0, 'violating_runs': 0}
                retry, retried = [], set()

                def on_result(tid, res, arm=arm, arm_stat=arm_stat):
                    agg['evaluations'] += 1
                    arm_stat['runs'] += 1
                    agg['run_wall'] += res.get('wall', 0)
                    if res.get('harness_error'):
                        if res.get('timeout') and tid not in retried:
                            # on a loaded machine a run can exceed its wall-clock allowance: it is executed once more
                            # below, on its own and with four times the allowance, before it counts as an error
                            agg['timeouts'] += 1
                            retry.append(tid)
                            arm_stat['runs'] -= 1
                            agg['evaluations'] -= 1
                            return
                        agg['harness_errors'].append({'arm': arm['name'], 'index': tid,
                                                      'error': res['harness_error'][-3000:]})
                        return
                    all_digests['%s/%d' % (arm['name'], tid)] = res['digest']
                    agg['digests'].add(res['digest'])
                    if res.get('nontrivial'):
                        agg['nontrivial_digests'].add(res['digest'])
                        arm_stat['nontrivial'] += 1
                    for k, v in res['ops'].items():
                        agg['ops'][k] = agg['ops'].get(k, 0) + v
                        agg['ops_total'] += v
                    for k, v in res['faults'].items():
                        agg['faults'][k] = agg['faults'].get(k, 0) + v
                    for k, v in res['probes'].items():
                        agg['probes'][k] = agg['probes'].get(k, 0) + v
                    for k, v in res.get('info', {}).items():
                        if isinstance(v, (int, float)):
                            agg['info'][k] = agg['info'].get(k, 0) + v
                        elif isinstance(v, list):
                            lst = agg['info'].setdefault(k, [])
                            for x in v:
                                if x not in lst and len(lst) < 200:
                                    lst.append(x)
                    agg['state_sigs'].update(res['state_sigs'])
                    agg['sim_time'] += res['sim_time']
                    agg['commit_points'] += res['commit_points']
                    for k, v in res['known_seen'].items():
                        agg['known_seen'][k] = agg['known_seen'].get(k, 0) + v
                    if res.get('trace') and len(agg['samples']) < 3 and not res['violations']:
                        agg['samples'].append({'arm': arm['name'], 'run_index': tid, 'digest': res['digest'][:16],
                                               'trace': res['trace'][:60]})
                    if res['violations']:
                        arm_stat['violating_runs'] += 1
                    for v in res['violations']:
                        k = _vkey(v)
                        if k not in violations:
                            violations[k] = {'v': v, 'arm': arm, 'index': tid, 'seed': None, 'blocks': res['blocks'],
                                             'trace': res['trace'], 'digest': res['digest'], 'count': 0,
                                             'tcfg': tcfg}
                        violations[k]['count'] += 1

                deadline = t_start + tcfg['budget_s'] if not digests_only else None
                t_arm = time.time()
                deadline = t_arm + tcfg['budget_s']
                by_id = {t['id']: t for t in tasks}
                pool.map(tasks, deadline=deadline, on_result=on_result)
                if retry:
                    retried.update(retry)
                    again = [dict(by_id[i], timeout=4 * by_id[i]['timeout']) for i in retry]
                    arm_stat['runs_repeated_after_timeout'] = len(again)
                    for t in again:         # one at a time
                        pool.map([t], deadline=None, on_result=on_result)
                arm_stat['wall_s'] = round(time.time() - t_arm, 1)
                arm_stat['planned_runs'] = tcfg['runs']
                agg['arms'][arm['name']] = arm_stat

                # shrink + replay files for this arm's violations
                if not digests_only:
                    for k, rec in list(violations.items()):
                        if rec['arm'] is not arm or 'replay' in rec:
                            continue
                        if len(replays) >= int(os.environ.get('VERIF_MAX_REPLAYS', '4')):
                            continue
                        base_task = {'prop': prop, 'arm': arm['name'], 'tier': tier,
                                     'seed': run_seed(verif_seed, prop, arm['name'], rec['index']),
                                     'timeout': tcfg.get('run_timeout_s', 60),
                                     'arm_params': tcfg.get('params', {})}
                        blocks, best, execs = shrink(pool, base_task, rec['blocks'], rec['v'],
                                                     budget_s=tcfg.get('shrink_budget_s', 90))
                        if best is None:
                            best = {'trace': rec['trace'], 'digest': rec['digest'], 'blocks': rec['blocks'],
                                    'violations': [rec['v']]}
                            blocks = rec['blocks']
                        vv = [v for v in best['violations'] if _same(v, rec['v'])][0]
                        rp = write_replay(prop, arm, tier, verif_seed, rec['index'], base_task['seed'],
                                          best.get('blocks') or blocks, vv, best['trace'], best['digest'],
                                          tcfg.get('params', {}), execs, len(rec['blocks']) - 1)
                        rec['replay'] = rp
                        replays.append(rp)
            finally:
                pool.close()
    finally:
        shutil.rmtree(base, ignore_errors=True)

    wall = time.time() - t_start
    if digests_only:
        print(json.dumps(all_digests, sort_keys=True))
        return 2 if agg['harness_errors'] else 0

    # confirm every replay in a fresh interpreter
    confirmed = {}
    for k, rec in violations.items():
        if 'replay' not in rec:
            continue
        p = subprocess.run([PY, os.path.join(VERIF, 'check'), prop, '--replay', rec['replay'], '--quiet',
                            '--repo', repo], capture_output=True, text=True, timeout=600)
        confirmed[rec['replay']] = (p.returncode == 1)
        if p.returncode != 1:
            agg['harness_errors'].append({'arm': rec['arm']['name'], 'index': rec['index'],
                                          'error': 'replay did not reproduce (exit %d): %s' %
                                                   (p.returncode, (p.stdout + p.stderr)[-1500:])})

    # report
    if os.environ.get('VERIF_PRINT_PROBES'):
        for name in ('ops', 'faults', 'probes'):
            print('%s: %s' % (name, json.dumps(agg[name], sort_keys=True)))
    for kid, n in sorted(agg['known_seen'].items()):
        kf = [x for x in known if x['id'] == kid][0]
        print("KNOWN-FINDING: property=%s %s [%s] (seen %d times)" % (prop, kf['what'], kid, n))
    n_viol = 0
    for k, rec in violations.items():
        if 'replay' in rec and confirmed.get(rec['replay']):
            n_viol += 1
            print("VIOLATION property=%s replay=%s" % (prop, rec['replay']))
            if not quiet:
                print("  class=%s signature=%s" % (rec['v']['class'], json.dumps(rec['v']['signature'], sort_keys=True)))
                print("  %s" % rec['v']['message'][:600])
                print("  seen in %d runs; first run index %d (arm %s)" % (rec['count'], rec['index'], rec['arm']['name']))
        elif 'replay' not in rec:
            n_viol += 1
            print("VIOLATION property=%s replay=(not minimised: more than 4 distinct violations) class=%s signature=%s"
                  % (prop, rec['v']['class'], json.dumps(rec['v']['signature'], sort_keys=True)))
    if n_viol:
        exit_code = 1
    if agg['harness_errors']:
        for he in agg['harness_errors'][:5]:
            print("HARNESS-ERROR arm=%s run=%s\n%s" % (he['arm'], he['index'], he['error']), file=sys.stderr)
        if exit_code == 0:
            exit_code = 2
    if write_evidence:
        _write_evidence(spec, tier, verif_seed, agg, violations, wall, jobs, known)
    if not quiet:
        print("%s %s: %d runs (%d distinct non-trivial), %d ops, %d faults fired, %d state signatures, "
              "%.1f s wall, %d violations, %d harness errors" %
              (prop, tier, agg['evaluations'], len(agg['nontrivial_digests']), agg['ops_total'],
               sum(agg['faults'].values()), len(agg['state_sigs']), wall, n_viol, len(agg['harness_errors'])))
    return exit_code


def write_replay(prop, arm, tier, verif_seed, index, seed, blocks, v, trace, digest, params, execs, orig_ops):
    d = os.path.join(VERIF, 'replays')
    os.makedirs(d, exist_ok=True)
    name = '%s-%s-%d-%s.json' % (prop, arm['name'], index, digest[:8])
    path = os.path.join(d, name)
    with open(path, 'w') as f:
        json.dump({'property': prop, 'arm': arm['name'], 'tier': tier, 'verif_seed': verif_seed,
                   'run_index': index, 'run_seed': seed, 'arm_params': params,
                   'choices': blocks, 'violation': v, 'trace': trace, 'digest': digest,
                   'minimisation': {'re_executions': execs, 'ops_before': orig_ops, 'ops_after': len(blocks) - 1}},
                  f, indent=1)
    return path


def run_replay(spec, path, repo, quiet=False):
    """Re-execute a replay file in this (fresh) process tree; exit 1 iff the same violation reproduces."""
    with open(path) as f:
        rp = json.load(f)
    arm = [a for a in spec['arms'] if a['name'] == rp['arm']][0]
    base = '/dev/shm/verif-%d' % os.getpid()
    shutil.rmtree(base, ignore_errors=True)
    os.makedirs(base)
    try:
        pool = Pool(arm, repo, base, 1, load_known())
        try:
            task = {'id': 0, 'prop': rp['property'], 'arm': rp['arm'], 'tier': rp['tier'], 'seed': rp['run_seed'],
                    'blocks': rp['choices'], 'want_trace': True, 'arm_params': rp.get('arm_params', {}),
                    'timeout': 300}
            res = pool.map([task])[0]
        finally:
            pool.close()
    finally:
        shutil.rmtree(base, ignore_errors=True)
    if res.get('harness_error'):
        print("HARNESS-ERROR during replay:\n%s" % res['harness_error'], file=sys.stderr)
        return 2
    same = [v for v in res['violations'] if _same(v, rp['violation'])]
    if not quiet:
        for line in res['trace']:
            print(line)
    if same:
        if res['digest'] != rp['digest']:
            print("note: violation reproduced but digest differs (%s vs %s)" % (res['digest'][:12], rp['digest'][:12]))
        print("VIOLATION property=%s replay=%s" % (rp['property'], path))
        return 1
    known_now = res.get('known_seen')
    print("replay did not reproduce the recorded violation (violations now: %s; known findings seen: %s)" %
          ([v['class'] for v in res['violations']], known_now))
    return 0 if not res['violations'] else 3


def _write_evidence(spec, tier, verif_seed, agg, violations, wall, jobs, known):
    prop = spec['property']
    runs = agg['evaluations']
    configured = set()
    for arm in spec['arms']:
        configured.update(arm.get('fault_kinds', []))
    never = sorted(k for k in configured if not agg['faults'].get(k))
    cov = {
        'evaluations': runs,
        'distinct_nontrivial': len(agg['nontrivial_digests']),
        'rule': spec['rule'],
        'samples': agg['samples'] or [{'note': 'no sample captured'}],
        'distinct_digests': len(agg['digests']),
        'runs_per_hour': int(runs / wall * 3600) if wall > 0 else 0,
        'seeds': {'verif_seed': verif_seed, 'derivation': 'run_seed = sha256(VERIF_SEED/property/arm/run_index)[:8]',
                  'run_indices': '0..n-1 per arm', 'arms': agg['arms']},
        'sim_time_covered_s': round(agg['sim_time'], 1),
        'ops_executed': dict(sorted(agg['ops'].items())),
        'faults_fired': dict(sorted(agg['faults'].items())),
        'faults_configured_never_fired': never,
        'distinct_state_signatures': len(agg['state_sigs']),
        'state_signature_measure': spec.get('state_measure', ''),
        'commit_points': agg['commit_points'],
        'probes': dict(sorted(agg['probes'].items())),
        'components': spec['components'],
        'known_findings_seen': [{'id': k, 'count': n} for k, n in sorted(agg['known_seen'].items())],
        'harness_errors': len(agg['harness_errors']),
        'run_timeouts': agg['timeouts'],
        'workers': jobs,
        'exhaustive': False,
    }
    for k, v in agg['info'].items():
        cov[k] = v
    if spec.get('coverage_extra'):
        cov.update(spec['coverage_extra'](agg))
    ev = {
        'property_id': prop, 'tier': tier, 'seed': verif_seed, 'level': spec['level'],
        'coverage': cov, 'assumptions': spec['assumptions'], 'wall_s': round(wall, 2),
        'violations': len(violations),
    }
    d = os.path.join(VERIF, 'evidence')
    os.makedirs(d, exist_ok=True)
    tmp = os.path.join(d, '.%s.json.tmp' % prop)
    with open(tmp, 'w') as f:
        json.dump(ev, f, indent=1, sort_keys=True)
    os.replace(tmp, os.path.join(d, '%s.json' % prop))
