"""Setup and determinism self-tests (DESIGN.md 9)."""
import json
import os
import subprocess
import sys
import time

VERIF = os.path.dirname(os.path.dirname(os.path.abspath(__file__)))
PY = '/venv/bin/python'


def _digests(prop, runs, repo, seed, hashseed, jobs):
    env = dict(os.environ)
    env['VERIF_HASHSEED'] = str(hashseed)
    env.pop('PYTHONHASHSEED', None)
    p = subprocess.run([PY, os.path.join(VERIF, 'check'), prop, '--digests', '--runs', str(runs), '--jobs', str(jobs),
                        '--repo', repo, '--seed', str(seed), '--budget-s', '900'],
                       capture_output=True, text=True, env=env, timeout=1800)
    if p.returncode != 0:
        raise RuntimeError("digest run failed (exit %d):\n%s\n%s" % (p.returncode, p.stdout[-2000:], p.stderr[-2000:]))
    return json.loads(p.stdout.strip().splitlines()[-1])


def determinism(props, runs, repo, seed):
    """Each of `runs` seeds per property: twice under PYTHONHASHSEED=0 with 16 workers, once in a fresh interpreter
    under another PYTHONHASHSEED with 5 workers.  All three event-log digests must agree."""
    bad = 0
    for prop in props:
        t0 = time.time()
        a = _digests(prop, runs, repo, seed, 0, 16)
        b = _digests(prop, runs, repo, seed, 0, 16)
        c = _digests(prop, runs, repo, seed, 4242, 5)
        diff = [k for k in a if a[k] != b.get(k) or a[k] != c.get(k)]
        missing = [k for k in a if k not in b or k not in c]
        print("determinism %s: %d runs x 3 executions, %d mismatching digests, %d missing (%.0f s)" %
              (prop, len(a), len(diff), len(missing), time.time() - t0))
        for k in diff[:5]:
            print("  run %s: %s / %s / %s" % (k, a[k][:12], b.get(k, '-')[:12], c.get(k, '-')[:12]))
        bad += len(diff) + len(missing)
    return 2 if bad else 0


def setup(repo):
    """MANIFEST.setup_cmd: nothing to build or install; verify the interpreter, the library import path, the
    reference library against published vectors + mainnet blocks, and a small determinism smoke test."""
    t0 = time.time()
    p = subprocess.run([PY, '-c', 'import sys; sys.path.insert(0, %r); import bitcoinlib, sqlalchemy, numpy; '
                                  'print(bitcoinlib.__file__)' % repo],
                       capture_output=True, text=True, env=dict(os.environ, BCL_DATA_DIR='/dev/shm/verif-setup-bcl'))
    if p.returncode != 0 or not os.path.realpath(p.stdout.strip()).startswith(os.path.realpath(repo)):
        print("setup: cannot import bitcoinlib from %s:\n%s%s" % (repo, p.stdout, p.stderr))
        return 2
    subprocess.run(['rm', '-rf', '/dev/shm/verif-setup-bcl'])
    sys.path.insert(0, VERIF)
    from ref import selftest as rst
    have_blocks = os.path.exists(os.path.join(repo, 'tests', 'block722010.pickle'))
    if not have_blocks:
        print("setup: mainnet block files absent under %s/tests; reference validated on published vectors only" % repo)
    res = rst.run(verbose=False, quick=True)
    print("setup: reference self-test ok (%s)" % json.dumps(res, sort_keys=True)[:300])
    from scenarios.specs import SPECS
    rc = determinism(sorted(SPECS), 6, repo, 0)
    print("setup done in %.0f s" % (time.time() - t0))
    return rc
