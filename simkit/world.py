"""World: event log, simulated clock, entropy, storage seam, violation bookkeeping (DESIGN.md 2, 3).

Imported inside forked workers only (after BCL_DATA_DIR etc. are set).  Importing this module does
not import bitcoinlib; World.install() does the patching and expects bitcoinlib to be imported.
"""
import datetime as _dt
import hashlib
import json
import os
import random
import shutil
import sys
import time as _real_time

EPOCH0 = 1_750_000_000  # simulated wall clock at run start (2025-06-15), plus a drawn offset


class SimCrash(BaseException):
    """Process death at a crash point.  BaseException so no `except Exception` swallows it."""


class StopRun(Exception):
    """Raised by World.violation() for an unlisted violation: the run ends here."""


class HarnessError(Exception):
    """A defect of the harness itself (never reported as a VIOLATION)."""


def _j(x):
    """Canonical JSON-able form for event fields; refuses objects whose repr could be unstable."""
    if x is None or isinstance(x, (bool, int, str)):
        return x
    if isinstance(x, float):
        return round(x, 6)
    if isinstance(x, (bytes, bytearray)):
        return 'b:' + bytes(x).hex()
    if isinstance(x, (list, tuple)):
        return [_j(i) for i in x]
    if isinstance(x, dict):
        return {str(k): _j(v) for k, v in sorted(x.items(), key=lambda kv: str(kv[0]))}
    if isinstance(x, (set, frozenset)):
        return sorted(_j(i) for i in x)
    if isinstance(x, _dt.datetime):
        return x.isoformat()
    tn = type(x).__name__
    if tn in ('int64', 'int32', 'uint64', 'float64', 'bool_'):
        return 'np:%s:%s' % (tn, x)
    raise HarnessError("unloggable value of type %s" % type(x))


class EventLog:
    def __init__(self):
        self.seq = 0
        self._h = hashlib.sha256()
        self.events = []
        self.keep = True

    def ev(self, _ev, **fields):
        self.seq += 1
        rec = [self.seq, _ev, _j(fields)]
        self._h.update(json.dumps(rec, sort_keys=True, separators=(',', ':')).encode())
        if self.keep:
            self.events.append(rec)
        return self.seq

    def digest(self):
        return self._h.hexdigest()


# ---------------------------------------------------------------------------------------------
# clock

class SimClock:
    def __init__(self, start):
        self.now = float(start)
        self.start = float(start)

    def advance(self, dt):
        self.now += dt

    def covered(self):
        return self.now - self.start


def make_fake_time(clock):
    class FakeTime:
        """Stands in for the `time` module inside bitcoinlib modules."""
        def time(self):
            return clock.now

        def sleep(self, s):
            clock.advance(max(0.0, float(s)))

        def __getattr__(self, name):
            return getattr(_real_time, name)
    return FakeTime()


def make_fake_datetime(clock):
    class FakeDatetime(_dt.datetime):
        @classmethod
        def now(cls, tz=None):
            d = _dt.datetime.fromtimestamp(clock.now, _dt.timezone.utc)
            if tz is None:
                d = d.replace(tzinfo=None)
            else:
                d = d.astimezone(tz)
            return cls(d.year, d.month, d.day, d.hour, d.minute, d.second, d.microsecond, d.tzinfo)

        @classmethod
        def utcnow(cls):
            return cls.now()

        @classmethod
        def today(cls):
            return cls.now()
    return FakeDatetime


# ---------------------------------------------------------------------------------------------
# entropy

class SimEntropy:
    """os.urandom / random._urandom replacement: counter-mode SHA-256 of the run's entropy seed.
    Never returns the same block twice in a run; records who drew how much and when."""

    def __init__(self, seed, log):
        self.seed = str(seed).encode()
        self.counter = 0
        self.log = log
        self.draws = []          # (event_seq, nbytes)
        self.bytes_drawn = 0
        self.fail_next = False
        self.fail_count = 0

    def urandom(self, n):
        if self.fail_next:
            self.fail_next = False
            self.fail_count += 1
            self.log.ev('entropy_fail', n=n)
            raise OSError("simulated: entropy source unavailable")
        out = b''
        while len(out) < n:
            self.counter += 1
            out += hashlib.sha256(self.seed + b'/' + str(self.counter).encode()).digest()
        self.bytes_drawn += n
        self.draws.append((self.log.seq, n))
        return out[:n]


# ---------------------------------------------------------------------------------------------
# violations

class Violation:
    def __init__(self, klass, signature, message, event_seq):
        self.klass = klass
        self.signature = signature
        self.message = message
        self.event_seq = event_seq

    def as_dict(self):
        return {'class': self.klass, 'signature': self.signature, 'message': self.message,
                'event_seq': self.event_seq}


def kf_match(entry, klass, signature):
    if entry.get('status') != 'open' or entry.get('class') not in (klass, '*'):
        return False
    for k, v in entry.get('signature', {}).items():
        if signature.get(k) != v:
            return False
    return True


# ---------------------------------------------------------------------------------------------

class World:
    """Everything one simulated run owns."""

    def __init__(self, prop, chooser, scratch, known_findings=(), keep_events=False):
        self.prop = prop
        self.ch = chooser
        self.scratch = scratch
        self.log = EventLog()
        self.log.keep = keep_events
        self.known = [k for k in known_findings if k.get('property') == prop]
        self.ops = {}
        self.ops_ok = 0
        self.faults = {}
        self.probes = {}
        self.state_sigs = set()
        self.violations = []       # unlisted
        self.known_seen = {}       # kf id -> count
        self.trace = []
        self.clock = None
        self.entropy = None
        self.commit_points = 0
        self.commit_hook = None    # callable(session, phase) -> None, may raise
        self.engines = []
        self.info = {}
        self._installed = False
        self._orig = {}

    # -- bookkeeping --------------------------------------------------------------------------
    def op(self, _op, **fields):
        self.ops[_op] = self.ops.get(_op, 0) + 1
        self.trace.append('%d op %s %s' % (self.log.seq + 1, _op, json.dumps(_j(fields), sort_keys=True)))
        return self.log.ev('op', _k=_op, **fields)

    def outcome(self, _out, **fields):
        self.trace.append('%d   -> %s %s' % (self.log.seq + 1, _out, json.dumps(_j(fields), sort_keys=True)))
        return self.log.ev('out', _k=_out, **fields)

    def fault(self, _fault, **fields):
        self.faults[_fault] = self.faults.get(_fault, 0) + 1
        self.trace.append('%d   !! fault %s %s' % (self.log.seq + 1, _fault, json.dumps(_j(fields), sort_keys=True)))
        return self.log.ev('fault', _k=_fault, **fields)

    def probe(self, name, n=1):
        self.probes[name] = self.probes.get(name, 0) + n

    def state_sig(self, *parts):
        s = hashlib.sha256(json.dumps(_j(parts), sort_keys=True).encode()).hexdigest()[:12]
        if len(self.state_sigs) < 400:
            self.state_sigs.add(s)

    def note(self, text):
        self.trace.append('%d   .. %s' % (self.log.seq, text))

    def violation(self, klass, signature, message):
        """Record a violation.  A violation matching an open known finding is counted and the run
        goes on; any other ends the run (StopRun)."""
        if getattr(self, 'sig_env', None):
            signature = dict(signature, **self.sig_env)
        seq = self.log.ev('violation', klass=klass, signature=signature)
        for k in self.known:
            if kf_match(k, klass, signature):
                self.known_seen[k['id']] = self.known_seen.get(k['id'], 0) + 1
                self.trace.append('%d   ** known finding %s' % (seq, k['id']))
                return False
        self.trace.append('%d   ** VIOLATION %s %s: %s' % (seq, klass, json.dumps(_j(signature), sort_keys=True),
                                                          message))
        self.violations.append(Violation(klass, _j(signature), message, seq))
        if getattr(self, 'debug_src', None):
            ns = dict(getattr(self, 'debug_ns', {}))
            ns.update({"EXECS": __import__("scenarios.c20_service", fromlist=["x"]).EXECS, 'world': self, 'klass': klass, 'signature': signature, 'message': message})
            exec(self.debug_src, ns)
        raise StopRun()

    # -- seams --------------------------------------------------------------------------------
    def install(self, clock_start_offset=0, entropy_seed=0, lib_seed=0):
        """Patch clock, entropy, PRNGs and the storage seam.  bitcoinlib must be imported."""
        import sqlalchemy.orm
        import sqlalchemy
        self.clock = SimClock(EPOCH0 + clock_start_offset)
        self.entropy = SimEntropy(entropy_seed, self.log)
        ft = make_fake_time(self.clock)
        fdt = make_fake_datetime(self.clock)
        self.fake_datetime = fdt
        for name, mod in list(sys.modules.items()):
            if not name.startswith('bitcoinlib') or mod is None:
                continue
            if getattr(mod, 'datetime', None) is _dt.datetime:
                mod.datetime = fdt
            if getattr(mod, 'time', None) is _real_time:
                mod.time = ft
        os.urandom = self.entropy.urandom
        random._urandom = self.entropy.urandom
        random.seed(lib_seed)
        try:
            import numpy
            numpy.random.seed(lib_seed % (2 ** 32))
        except ImportError:
            pass

        world = self
        Session = sqlalchemy.orm.Session
        orig_commit = Session.commit

        def commit(self_session):
            world.commit_points += 1
            hook = world.commit_hook
            if hook is not None:
                hook(self_session, 'before')
            r = orig_commit(self_session)
            if hook is not None:
                hook(self_session, 'after')
            return r
        Session.commit = commit

        import bitcoinlib.db as bdb
        import bitcoinlib.db_cache as bdbc
        orig_ce = sqlalchemy.create_engine

        def create_engine(*a, **kw):
            if a and str(a[0]).startswith('sqlite') and 'connect_args' not in kw:
                # a lock held by another handle of this single-threaded simulation never goes away by waiting
                kw['connect_args'] = {'timeout': 0.02}
            e = orig_ce(*a, **kw)
            world.engines.append(e)
            return e
        bdb.create_engine = create_engine
        bdbc.create_engine = create_engine
        self._installed = True

    def dirty_restart(self):
        """Process death: every session is rolled back and closed, every engine disposed.
        Only committed SQLite transactions survive."""
        from sqlalchemy.orm import session as sa_session
        hook, self.commit_hook = self.commit_hook, None
        try:
            sa_session.close_all_sessions()
        finally:
            for e in self.engines:
                try:
                    e.dispose()
                except Exception:
                    pass
            self.engines = []
            self.commit_hook = hook

    def session_file(self, session):
        try:
            return os.path.basename(session.get_bind().url.database or '')
        except Exception:
            return ''

    # -- result -------------------------------------------------------------------------------
    def result(self):
        return {
            'digest': self.log.digest(),
            'n_events': self.log.seq,
            'ops': self.ops,
            'ops_ok': self.ops_ok,
            'faults': self.faults,
            'probes': self.probes,
            'state_sigs': sorted(self.state_sigs),
            'violations': [v.as_dict() for v in self.violations],
            'known_seen': self.known_seen,
            'sim_time': self.clock.covered() if self.clock else 0,
            'commit_points': self.commit_points,
            'draws': self.ch.draws,
            'blocks': self.ch.blocks,
            'trace': self.trace,
            'info': self.info,
        }


def make_scratch(base, tag):
    p = os.path.join(base, tag)
    shutil.rmtree(p, ignore_errors=True)
    os.makedirs(p)
    return p
