"""Layer B of DESIGN.md 2: the library's *real* Esplora-style provider clients (BlockstreamClient, MempoolClient, with
the real BaseClient.request) talking to an in-process fake HTTP transport that serves the SimChain.

Nothing in /repo is changed: `bitcoinlib.services.baseclient.requests` is replaced by a transport object in the
worker process, and the query methods of the two client classes are wrapped by a recorder that writes the same
invocation records the stub clients of layer A write (CTX.calls / CTX.instantiations), so the FailoverModel and the
query oracles of scenarios/c20_service.py apply unchanged.

Faults are injected where real deployments meet them - in the HTTP exchange: time-outs, refused connections, status
429/500/503/404, HTML instead of JSON, truncated JSON, `null`, a JSON error object, an empty body, a reply that is lost
after the server acted on a POST; plus lagging / blank views of the chain.  Which request of a client call is hit is
drawn too (a client method issues between one and dozens of requests).
"""
import json
from urllib.parse import urlparse

import requests as real_requests

from ref import codec as rcodec
from simkit.providers import CTX, QUERY_METHODS
from simkit.simchain import View

URL = 'http://esp%d.sim.invalid/api/'
HARD = ['status_500', 'status_429', 'status_404', 'status_503_html', 'timeout', 'conn_error', 'status_204', 'status_202',
        'status_302']
SOFT = ['html_200', 'truncated_json', 'json_null', 'json_error_object', 'empty_body']
FLAVORS = HARD + SOFT


class HttpState:
    def __init__(self):
        self.depth = 0
        self.plan = None        # fault plan of the client call in progress
        self.requests = 0       # HTTP requests served in this run
        self.by_flavor = {}


HTTP = HttpState()


class FakeResponse:
    def __init__(self, status, body, binary=False):
        self.status_code = status
        self.ok = status < 400          # as requests.Response.ok
        self.reason = ''
        self.headers = {}
        if binary:
            self.content = body
            self.text = body.decode('latin1')
            self.encoding = None
            self.apparent_encoding = None
        else:
            self.text = body
            self.content = body.encode()
            self.encoding = 'utf-8'
            self.apparent_encoding = 'ascii'


class NotFound(Exception):
    pass


def pid_of_url(url):
    host = urlparse(url).hostname or ''
    if host.startswith('esp') and host.endswith('.sim.invalid'):
        try:
            return int(host[3:].split('.')[0])
        except ValueError:
            return None
    return None


# -- the Esplora server over the SimChain ---------------------------------------------------------------------------
def _addr(script):
    try:
        return rcodec.script_to_address(script, CTX.network) or None
    except Exception:
        return None


def _status(c, view):
    ch = CTX.chain
    if ch.tx_visible(c, view) == 'confirmed':
        b = ch.block_at(c.height)
        return {'confirmed': True, 'block_height': c.height, 'block_hash': b.hash, 'block_time': b.time}
    return {'confirmed': False}


def tx_json(c, view):
    tx = c.tx
    size = len(c.raw)
    stripped = len(tx.serialize(with_witness=False))
    vin = []
    for i, v in enumerate(tx.vin):
        d = {'txid': v.prev_txid_hex(), 'vout': v.vout, 'scriptsig': v.script_sig.hex(), 'is_coinbase': bool(c.coinbase),
             'sequence': v.sequence, 'prevout': None}
        if not c.coinbase:
            po = {'scriptpubkey': c.in_scripts[i].hex(), 'value': c.in_values[i]}
            a = _addr(c.in_scripts[i])
            if a:
                po['scriptpubkey_address'] = a
            d['prevout'] = po
        if v.witness:
            d['witness'] = [w.hex() for w in v.witness]
        vin.append(d)
    vout = []
    for o in tx.vout:
        d = {'scriptpubkey': o.script_pubkey.hex(), 'value': o.value}
        a = _addr(o.script_pubkey)
        if a:
            d['scriptpubkey_address'] = a
        vout.append(d)
    return {'txid': c.txid, 'version': tx.version, 'locktime': tx.locktime, 'vin': vin, 'vout': vout, 'size': size,
            'weight': stripped * 3 + size, 'fee': 0 if c.coinbase else c.fee, 'status': _status(c, view)}


def _script(address):
    try:
        return rcodec.address_to_script(address, CTX.network)
    except Exception:
        raise NotFound('invalid address')


def _visible_tx(txid, view):
    c = CTX.chain.txs.get(txid)
    if c is None or CTX.chain.tx_visible(c, view) is None:
        raise NotFound('transaction not found')
    return c


def _block(blockhash, view):
    b = CTX.chain.by_hash.get(blockhash)
    if b is None or b.height > CTX.chain.visible_height(view):
        raise NotFound('block not found')
    return b


def serve(pid, method, path, post_data, view, blank):
    """Returns the JSON-able answer (or str / bytes for the text and raw endpoints)."""
    ch = CTX.chain
    parts = [p for p in path.split('/') if p]
    if method == 'post':
        if parts == ['tx']:
            raw = bytes.fromhex(post_data if isinstance(post_data, str) else bytes(post_data).decode())
            ok, reason, txid = ch.submit(raw)
            CTX.world.log.ev('chain_submit', ok=ok, reason=reason, txid=txid)
            if not ok:
                raise NotFound('sendrawtransaction RPC error: %s' % reason)      # Esplora answers 400 with text
            return txid
        raise NotFound('no such endpoint')
    if parts[:3] == ['blocks', 'tip', 'height']:
        return ch.visible_height(view)
    if parts[:1] == ['address'] and len(parts) >= 2:
        spk = _script(parts[1])
        hist = [] if blank else ch.history_of(spk, view)
        if len(parts) == 2:
            funded = spent = fm = sm = 0
            n_tx = 0
            for c in hist:
                conf = ch.tx_visible(c, view) == 'confirmed'
                n_tx += 1
                for n, o in enumerate(c.tx.vout):
                    if o.script_pubkey == spk:
                        if conf:
                            funded += o.value
                        else:
                            fm += o.value
                for i, s in enumerate(c.in_scripts):
                    if s == spk:
                        if conf:
                            spent += c.in_values[i]
                        else:
                            sm += c.in_values[i]
            return {'address': parts[1],
                    'chain_stats': {'funded_txo_sum': funded, 'spent_txo_sum': spent, 'tx_count': n_tx},
                    'mempool_stats': {'funded_txo_sum': fm, 'spent_txo_sum': sm}}
        if parts[2] == 'utxo':
            res = []
            for c, n, value in ([] if blank else ch.utxos_of(spk, view)):
                res.append({'txid': c.txid, 'vout': n, 'value': value, 'status': _status(c, view)})
            return res
        if parts[2] == 'txs':
            # newest first: the mempool, then confirmed transactions in pages of 25
            conf = [c for c in hist if ch.tx_visible(c, view) == 'confirmed'][::-1]
            unconf = [c for c in hist if ch.tx_visible(c, view) == 'unconfirmed'][::-1]
            last_seen = parts[-1] if len(parts) > 3 and parts[-1] not in ('txs', 'chain') else ''
            if last_seen:
                ids = [c.txid for c in conf]
                page = conf[ids.index(last_seen) + 1:][:25] if last_seen in ids else []
                return [tx_json(c, view) for c in page]
            # Esplora: up to 50 mempool transactions plus the first 25 confirmed ones
            return [tx_json(c, view) for c in unconf[:50] + conf[:25]]
        raise NotFound('no such endpoint')
    if parts[:1] == ['tx'] and len(parts) >= 2:
        c = _visible_tx(parts[1], view)
        if len(parts) == 2:
            return tx_json(c, view)
        if parts[2] == 'hex':
            return c.raw.hex()
        if parts[2] == 'outspend' and len(parts) == 4:
            n = int(parts[3])
            if n >= len(c.tx.vout):
                raise NotFound('output not found')
            sp = ch.spender(c.txid, n, view)
            if not sp:
                return {'spent': False}
            return {'spent': True, 'txid': sp[0], 'vin': sp[1], 'status': _status(ch.txs[sp[0]], view)}
        raise NotFound('no such endpoint')
    if parts == ['fee-estimates']:
        base = CTX.fee_base.get(pid, 20000) / 1000.0
        return {str(n): max(1.0, base / n) for n in (1, 2, 3, 6, 10, 25, 144, 504, 1008)}
    if parts == ['v1', 'fees', 'recommended']:
        base = max(1, CTX.fee_base.get(pid, 20000) // 1000)
        return {'fastestFee': base, 'halfHourFee': max(1, base // 2), 'hourFee': max(1, base // 4),
                'economyFee': 1, 'minimumFee': 1}
    if parts == ['mempool', 'txids']:
        if not view.mempool or blank:
            return []
        unconf = [t for t in ch.txs.values() if ch.tx_visible(t, view) == 'unconfirmed']
        unconf.sort(key=lambda c: c.arrival)
        return [c.txid for c in unconf]
    if parts[:1] == ['block-height'] and len(parts) == 2:
        b = ch.block_at(int(parts[1]))
        if b is None or b.height > ch.visible_height(view):
            raise NotFound('block not found')
        return b.hash
    if parts[:1] == ['block'] and len(parts) >= 2:
        b = _block(parts[1], view)
        if len(parts) == 2:
            return {'id': b.hash, 'height': b.height, 'version': b.version, 'timestamp': b.time, 'bits': b.bits,
                    'nonce': b.nonce, 'merkle_root': b.merkle, 'previousblockhash': b.prev, 'tx_count': len(b.txids),
                    'size': 0, 'weight': 0}
        if parts[2] == 'txs':
            start = int(parts[3]) if len(parts) > 3 else 0
            return [tx_json(ch.txs[i], view) for i in b.txids[start:start + 25]]
        if parts[2] == 'txids':
            return list(b.txids)
    raise NotFound('no such endpoint')


# -- the transport that replaces `requests` inside bitcoinlib.services.baseclient -----------------------------------
class FakeRequests:
    exceptions = real_requests.exceptions

    def get(self, url, timeout=None, verify=True, headers=None):
        return self._exchange('get', url, '')

    def post(self, url, json=None, data='', timeout=None, verify=True, headers=None):
        return self._exchange('post', url, data)

    def _exchange(self, method, url, post_data):
        w = CTX.world
        pid = pid_of_url(url)
        if pid is None or w is None:
            raise real_requests.exceptions.ConnectionError('simulated: no route to %s' % url)
        HTTP.requests += 1
        plan = HTTP.plan or {}
        n = plan.get('n', 0)
        plan['n'] = n + 1
        flavor = plan.get('flavor') if plan.get('at') == n else None
        u = urlparse(url)
        path = u.path[len('/api/'):] if u.path.startswith('/api/') else u.path
        view = plan.get('view') or CTX.views.get(pid, View())
        if flavor in ('timeout', 'conn_error'):
            self._fired(plan, flavor, pid, path)
            if flavor == 'timeout':
                w.clock.advance(plan.get('timeout_s', 5))
                raise real_requests.exceptions.ReadTimeout('simulated: read timed out')
            raise real_requests.exceptions.ConnectionError('simulated: connection refused')
        if flavor in ('status_500', 'status_429', 'status_404', 'status_503_html', 'status_204', 'status_202', 'status_302'):
            self._fired(plan, flavor, pid, path)
            code = int(flavor.split('_')[1])
            body = '<html><body><h1>503 Service Temporarily Unavailable</h1></body></html>' if 'html' in flavor \
                else {500: 'Internal Server Error', 429: 'Too Many Requests', 404: 'Not Found', 204: '', 202: 'Accepted',
                      302: ''}[code]
            return FakeResponse(code, body)
        try:
            val = serve(pid, method, path, post_data, view, plan.get('blank', False))
        except NotFound as e:
            return FakeResponse(400 if method == 'post' else 404, str(e))
        if plan.get('lost_reply') and method == 'post':
            self._fired(plan, 'lost_reply', pid, path)
            raise real_requests.exceptions.ReadTimeout('simulated: reply lost')
        if isinstance(val, bytes):
            return FakeResponse(200, val, binary=True)
        body = val if isinstance(val, str) else json.dumps(val)
        if flavor == 'html_200':
            self._fired(plan, flavor, pid, path)
            body = '<!DOCTYPE html><html><head><title>Just a moment...</title></head></html>'
        elif flavor == 'truncated_json':
            self._fired(plan, flavor, pid, path)
            body = body[:max(1, len(body) // 2)]
        elif flavor == 'json_null':
            self._fired(plan, flavor, pid, path)
            body = 'null'
        elif flavor == 'json_error_object':
            self._fired(plan, flavor, pid, path)
            body = '{"error": "backend unavailable", "code": -1}'
        elif flavor == 'empty_body':
            self._fired(plan, flavor, pid, path)
            body = ''
        return FakeResponse(200, body)

    @staticmethod
    def _fired(plan, flavor, pid, path):
        plan['fired'] = flavor
        HTTP.by_flavor[flavor] = HTTP.by_flavor.get(flavor, 0) + 1
        CTX.world.fault('http_' + flavor, pid=pid, path='/'.join(path.split('/')[:1]))


# -- recorder around the real client classes ---------------------------------------------------------------------------
def _plan_for(kind, detail, pid):
    """Translate the scenario's per-invocation behaviour into an HTTP-level plan."""
    ch = CTX.world.ch
    plan = {'n': 0, 'kind': kind}
    if kind in ('ok',):
        return plan
    if kind == 'stale':
        plan['view'] = View(lag=detail['lag'], mempool=detail['mempool'])
        return plan
    if kind == 'empty':
        plan['blank'] = True
        return plan
    if kind == 'lost_reply':
        plan['lost_reply'] = True
        return plan
    if kind == 'slow':
        CTX.world.clock.advance(detail['dt'])
        if detail['timeout']:
            plan.update(flavor='timeout', at=0, timeout_s=0)
        return plan
    if kind == 'malformed':
        # the body is not what the client expects; the client may fail on it or pass something on
        plan.update(flavor=ch.pick('http_soft', SOFT), at=ch.pick('http_at', [0, 0, 0, 1, 2, 5]))
        return plan
    # raise / false: the exchange fails outright
    if kind == 'raise' and detail in ('ReadTimeout', 'ConnectionError'):
        flavor = 'timeout' if detail == 'ReadTimeout' else 'conn_error'
    else:
        flavor = ch.pick('http_hard', HARD)
    # 'ClientError' is what "this provider is down" means to the scenario (enumerated slices, all-down replays): the
    # very first request fails.  Other failures may hit any request of the call (and miss, if the call is shorter).
    at = 0 if kind == 'false' or detail == 'ClientError' else ch.pick('http_at', [0, 0, 0, 1, 2, 5])
    plan.update(flavor=flavor, at=at)
    return plan


def _recorder(name, orig):
    def wrapped(self, *args, **kwargs):
        pid = pid_of_url(getattr(self, 'base_url', '') or '')
        w = CTX.world
        if pid is None or w is None or HTTP.depth:
            return orig(self, *args, **kwargs)
        kind, detail = ('ok', None) if CTX.behave is None else CTX.behave(pid, name, args)
        plan = _plan_for(kind, detail, pid)
        rec = {'pid': pid, 'method': name, 'args': args, 'kind': kind, 'detail': detail, 'value': None, 'exc': None,
               'seq': w.log.seq + 1, 'view': None, 'client': type(self).__name__}
        CTX.calls.append(rec)
        HTTP.plan = plan
        HTTP.depth += 1
        try:
            val = orig(self, *args, **kwargs)
            rec['value'] = val
            # what the service layer sees decides the record: a returned value is an answer
            rec['kind'] = kind if kind in ('ok', 'stale', 'empty') else 'ok'
            if plan.get('fired'):
                # the client passed something on although the body was not what it asked for
                rec['kind'] = 'malformed'
                rec['survived_fault'] = plan['fired']
                w.probe('client_answered_despite_http_fault:%s' % plan['fired'])
            w.log.ev('prov', pid=pid, method=name, kind=rec['kind'], n_http=plan['n'])
            return val
        except BaseException as e:
            rec['exc'] = type(e).__name__
            rec['kind'] = 'raise'
            if not plan.get('fired'):
                rec['honest_exc'] = True
            w.log.ev('prov', pid=pid, method=name, kind='raise', exc=type(e).__name__, n_http=plan['n'])
            raise
        finally:
            HTTP.depth -= 1
            HTTP.plan = None
            if CTX.on_call:
                CTX.on_call(rec)
    wrapped._verif_wrapped = True
    return wrapped


CLIENTS = {}


def install():
    """Once per worker process."""
    import bitcoinlib.services.baseclient as bc
    from bitcoinlib.services.blockstream import BlockstreamClient
    from bitcoinlib.services.mempool import MempoolClient
    bc.requests = FakeRequests()
    CLIENTS['blockstream'] = BlockstreamClient
    CLIENTS['mempool'] = MempoolClient
    for cls in (BlockstreamClient, MempoolClient):
        for m in QUERY_METHODS:
            f = cls.__dict__.get(m)
            if f is not None and not getattr(f, '_verif_wrapped', False):
                setattr(cls, m, _recorder(m, f))
    orig_init = bc.BaseClient.__init__
    if not getattr(orig_init, '_verif_wrapped', False):
        def init(self, network, provider, base_url, *args, **kwargs):
            orig_init(self, network, provider, base_url, *args, **kwargs)
            pid = pid_of_url(base_url or '')
            if pid is not None and CTX.world is not None:
                CTX.instantiations.append((CTX.world.log.seq, pid))
        init._verif_wrapped = True
        bc.BaseClient.__init__ = init


def missing_methods(provider):
    cls = CLIENTS[provider]
    return {m for m in QUERY_METHODS if not hasattr(cls, m)}


def write_providers_json(providers_json_dir, specs, network):
    """specs: list of {pid, priority, provider ('blockstream' | 'mempool')}."""
    import os
    defs = {}
    for s in specs:
        defs['esp%d' % s['pid']] = {
            'provider': s['provider'], 'network': network,
            'client_class': 'BlockstreamClient' if s['provider'] == 'blockstream' else 'MempoolClient',
            'provider_coin_id': '', 'url': URL % s['pid'], 'api_key': '', 'priority': s['priority'],
            'denominator': 1, 'network_overrides': None, 'timeout': 0}
    with open(os.path.join(providers_json_dir, 'providers.json'), 'w') as f:
        json.dump(defs, f)
