"""Background actors on the SimChain: keys held by the harness (reference code only) that receive and
spend coins so the chain has a history of legacy / segwit / nested-segwit transactions."""
from ref import hashes, secp256k1 as ec, script as rscript, sighash as rsighash, codec as rcodec
from ref.txcodec import RefTx, RefIn, RefOut


class RefKey:
    KINDS = ('p2wpkh', 'p2pkh', 'p2sh-p2wpkh')

    def __init__(self, tag, kind, network):
        self.priv = int.from_bytes(hashes.sha256(b'verif actor ' + tag.encode()), 'big') % (ec.N - 1) + 1
        self.pub = ec.pub_from_priv(self.priv, True)
        self.kind = kind
        self.network = network
        h = hashes.hash160(self.pub)
        if kind == 'p2pkh':
            self.script = rscript.p2pkh_script(h)
        elif kind == 'p2wpkh':
            self.script = rscript.p2wpkh_script(h)
        else:
            self.redeem = rscript.p2wpkh_script(h)
            self.script = rscript.p2sh_script(hashes.hash160(self.redeem))
        self.address = rcodec.script_to_address(self.script, network)

    def sign_input(self, tx, i, value):
        h = hashes.hash160(self.pub)
        code = rscript.p2pkh_script(h)
        if self.kind == 'p2pkh':
            z = rsighash.legacy_sighash(tx, i, self.script, 1)
            r, s = ec.ecdsa_sign(self.priv, int.from_bytes(z, 'big'))
            tx.vin[i].script_sig = rscript.push(ec.ser_der(r, s) + b'\x01') + rscript.push(self.pub)
        else:
            z = rsighash.bip143_sighash(tx, i, code, value, 1)
            r, s = ec.ecdsa_sign(self.priv, int.from_bytes(z, 'big'))
            tx.vin[i].witness = [ec.ser_der(r, s) + b'\x01', self.pub]
            if self.kind == 'p2sh-p2wpkh':
                tx.vin[i].script_sig = rscript.push(self.redeem)


def spend(chain, keys_by_script, outpoints, outputs, locktime=0, sequence=0xffffffff, version=2):
    """Build, sign (reference code) and submit a transaction spending `outpoints` [(txid, n)] owned by harness
    keys to `outputs` [(script, value)].  Returns (ok, reason, txid)."""
    vin, vals = [], []
    for (txid, n) in outpoints:
        spk, val = chain.utxo[(txid, n)]
        vin.append(RefIn(prev_txid=bytes.fromhex(txid)[::-1], vout=n, script_sig=b'', sequence=sequence, witness=[]))
        vals.append((spk, val))
    tx = RefTx(version=version, vin=vin, vout=[RefOut(value=v, script_pubkey=s) for s, v in outputs],
               locktime=locktime, segwit=True)
    for i, (spk, val) in enumerate(vals):
        keys_by_script[spk].sign_input(tx, i, val)
    return chain.submit(tx.serialize(), record=False)
