"""Simulated provider clients (layer A of DESIGN.md 2): classes derived from the real BaseClient, installed
as module `bitcoinlib.services.simprov` and listed in a generated providers.json.  They answer from a
View of the SimChain, or misbehave as the scenario's `behave` callback decides, and record every
invocation with the simulator's global event sequence number.

Imported in workers only (imports bitcoinlib).
"""
import json
import os
import types
from datetime import datetime, timezone

from bitcoinlib import services as _services_pkg
from bitcoinlib.services.baseclient import BaseClient, ClientError
from bitcoinlib.transactions import Transaction

from ref import codec as rcodec
from simkit.simchain import View

MAXP = 6
QUERY_METHODS = ['blockcount', 'estimatefee', 'getbalance', 'getutxos', 'gettransaction', 'gettransactions',
                 'getrawtransaction', 'sendrawtransaction', 'getblock', 'getrawblock', 'isspent', 'mempool', 'getinfo']


class ProvCtx:
    """State shared between the stub classes and the scenario of the current run."""

    def __init__(self):
        self.reset()

    def reset(self):
        self.world = None
        self.chain = None
        self.network = 'bitcoin'
        self.behave = None          # callable(pid, method, args) -> (kind, detail)
        self.views = {}             # pid -> View
        self.fee_base = {}          # pid -> int (sat/kB for 1 block)
        self.missing = {}           # pid -> set(method names the provider does not implement)
        self.spent_unknown = set()  # pids that do not know whether outputs are spent (gettransaction / getblock)
        self.calls = []             # invocation records (dicts)
        self.on_call = None
        self.instantiations = []    # (seq, pid)
        self.ctor_faults = False    # scenario opts in: behave(pid, '__init__', ()) may make the client constructor raise


CTX = ProvCtx()


class SimClientBase(BaseClient):
    pid = -1

    def __init__(self, network, base_url, denominator, *args):
        BaseClient.__init__(self, network, 'sim%d' % self.pid, base_url, denominator, *args)
        if CTX.world is not None:
            CTX.instantiations.append((CTX.world.log.seq, self.pid))
            if CTX.ctor_faults and CTX.behave is not None:
                # a provider can already fail while its client is set up (unsupported network, missing url, bad key)
                kind, detail = CTX.behave(self.pid, '__init__', ())
                if kind == 'raise':
                    w = CTX.world
                    rec = {'pid': self.pid, 'method': '__init__', 'args': (), 'kind': 'raise', 'detail': detail,
                           'value': None, 'exc': 'ClientError', 'seq': w.log.seq + 1, 'view': None}
                    CTX.calls.append(rec)
                    w.fault('prov_ctor_raise', pid=self.pid)
                    if CTX.on_call:
                        CTX.on_call(rec)
                    raise ClientError("simulated: provider sim%d cannot be set up for this network" % self.pid)

    def __getattribute__(self, name):
        if name in QUERY_METHODS:
            pid = object.__getattribute__(self, 'pid')
            if name in CTX.missing.get(pid, ()):
                raise AttributeError(name)
        return object.__getattribute__(self, name)

    # -- dispatch ---------------------------------------------------------------------------------
    def _do(self, method, args, honest):
        w = CTX.world
        kind, detail = ('ok', None) if CTX.behave is None else CTX.behave(self.pid, method, args)
        rec = {'pid': self.pid, 'method': method, 'args': args, 'kind': kind, 'detail': detail, 'value': None,
               'exc': None, 'seq': w.log.seq + 1, 'view': None}
        CTX.calls.append(rec)
        try:
            if kind in ('ok', 'stale'):
                view = CTX.views.get(self.pid, View())
                if kind == 'stale':
                    view = View(lag=detail['lag'], mempool=detail['mempool'])
                    w.fault('prov_stale', pid=self.pid, method=method)
                rec['view'] = (view.lag, view.mempool)
                val = honest(view)
                rec['value'] = val
                w.log.ev('prov', pid=self.pid, method=method, kind=kind)
                return val
            if kind == 'slow':
                # consumes simulated time (no real sleep) and then answers or times out
                w.fault('prov_slow', pid=self.pid, method=method, dt=detail['dt'])
                w.clock.advance(detail['dt'])
                if detail['timeout']:
                    import requests
                    rec['exc'] = 'ReadTimeout'
                    raise requests.exceptions.ReadTimeout("simulated: read timed out")
                view = CTX.views.get(self.pid, View())
                rec['view'] = (view.lag, view.mempool)
                val = honest(view)
                rec['value'] = val
                rec['kind'] = 'ok'
                return val
            if kind == 'raise':
                w.fault('prov_raise', pid=self.pid, method=method, exc=detail)
                rec['exc'] = detail
                if detail == 'ClientError':
                    raise ClientError("simulated: provider sim%d unavailable" % self.pid)
                if detail == 'ReadTimeout':
                    import requests
                    raise requests.exceptions.ReadTimeout("simulated: read timed out")
                if detail == 'ConnectionError':
                    import requests
                    raise requests.exceptions.ConnectionError("simulated: connection refused")
                if detail == 'KeyError':
                    raise KeyError('simulated-missing-key')
                raise Exception("simulated: unexpected provider failure")
            if kind == 'lost_reply':
                # the node acts on the request, the caller never sees the answer
                view = CTX.views.get(self.pid, View())
                try:
                    rec['value'] = honest(view)
                except Exception:
                    raise
                w.fault('bcast_lost_reply', pid=self.pid, method=method)
                rec['exc'] = 'ReadTimeout'
                import requests
                raise requests.exceptions.ReadTimeout("simulated: reply lost")
            if kind == 'false':
                w.fault('prov_false', pid=self.pid, method=method)
                rec['value'] = False
                return False
            if kind == 'empty':
                w.fault('prov_empty', pid=self.pid, method=method)
                val = detail['value']
                rec['value'] = val
                return val
            if kind == 'malformed':
                w.fault('prov_malformed', pid=self.pid, method=method, shape=detail['shape'])
                view = CTX.views.get(self.pid, View())
                val = detail['make'](self, view)
                rec['value'] = val
                return val
            raise RuntimeError("unknown behaviour %r" % (kind,))
        except BaseException as e:
            if rec['exc'] is None:
                rec['exc'] = type(e).__name__
                rec['kind'] = 'raise' if rec['kind'] in ('ok', 'stale') else rec['kind']
                rec['honest_exc'] = True
            raise
        finally:
            if CTX.on_call:
                CTX.on_call(rec)

    # -- helpers ----------------------------------------------------------------------------------
    def _script(self, address):
        try:
            return rcodec.address_to_script(address, CTX.network)
        except Exception:
            raise ClientError("simulated: invalid address %s" % address)

    def _addr(self, script):
        try:
            return rcodec.script_to_address(script, CTX.network) or ''
        except Exception:
            return ''

    def _txobj(self, c, view, spent_known=True):
        ch = CTX.chain
        status = ch.tx_visible(c, view)
        if status is None:
            raise ClientError("simulated: transaction not found")
        conf = ch.confirmations(c, view)
        height = c.height if status == 'confirmed' else None
        date = None
        if height is not None:
            date = datetime.fromtimestamp(ch.block_at(height).time, timezone.utc)
        has_wit = any(i.witness for i in c.tx.vin)
        t = Transaction(locktime=c.tx.locktime, version=c.tx.version, network=self.network,
                        fee=None if c.coinbase else c.fee, size=len(c.raw), txid=c.txid, date=date,
                        confirmations=conf, block_height=height, status=status, coinbase=c.coinbase,
                        witness_type='segwit' if has_wit else 'legacy', index=c.index)
        for i, vin in enumerate(c.tx.vin):
            if c.coinbase:
                t.add_input(prev_txid=vin.prev_txid_hex(), output_n=vin.vout, index_n=i,
                            witness_type='segwit' if has_wit else 'legacy', unlocking_script=vin.script_sig,
                            value=0, sequence=vin.sequence, strict=self.strict)
            else:
                t.add_input(prev_txid=vin.prev_txid_hex(), output_n=vin.vout, index_n=i,
                            unlocking_script=vin.script_sig, value=c.in_values[i],
                            address=self._addr(c.in_scripts[i]), sequence=vin.sequence,
                            locking_script=c.in_scripts[i], witnesses=list(vin.witness), strict=self.strict)
        for n, o in enumerate(c.tx.vout):
            sp = ch.spender(c.txid, n, view)
            if not spent_known:
                t.add_output(value=o.value, address=self._addr(o.script_pubkey), lock_script=o.script_pubkey,
                             output_n=n, spent=None, strict=self.strict)
                continue
            t.add_output(value=o.value, address=self._addr(o.script_pubkey), lock_script=o.script_pubkey,
                         output_n=n, spent=bool(sp), spending_txid='' if not sp else sp[0],
                         spending_index_n=None if not sp else sp[1], strict=self.strict)
        if any(i.witness_type in ('segwit', 'p2sh-segwit') for i in t.inputs):
            t.witness_type = 'segwit'
        t.update_totals()
        t.size = len(c.raw)
        if c.coinbase:
            t.fee = 0
        return t

    # -- query methods ----------------------------------------------------------------------------
    def blockcount(self):
        return self._do('blockcount', (), lambda v: CTX.chain.visible_height(v))

    def estimatefee(self, blocks):
        def honest(v):
            base = CTX.fee_base.get(self.pid, 20000)
            return max(1, base // max(1, blocks))
        return self._do('estimatefee', (blocks,), honest)

    def getbalance(self, addresslist):
        def honest(v):
            return sum(CTX.chain.balance_of(self._script(a), v) for a in addresslist)
        return self._do('getbalance', (list(addresslist),), honest)

    def getutxos(self, address, after_txid='', limit=20):
        def honest(v):
            ch = CTX.chain
            res = []
            for c, n, value in ch.utxos_of(self._script(address), v):
                st = ch.tx_visible(c, v)
                height = c.height if st == 'confirmed' else None
                res.append({
                    'address': address, 'txid': c.txid, 'confirmations': ch.confirmations(c, v), 'output_n': n,
                    'input_n': 0, 'block_height': height, 'fee': None, 'size': 0, 'value': value, 'script': '',
                    'date': None if height is None else datetime.fromtimestamp(ch.block_at(height).time, timezone.utc)
                })
                if c.txid == after_txid:
                    res = []
            return res[:limit]
        return self._do('getutxos', (address, after_txid, limit), honest)

    def gettransaction(self, txid):
        def honest(v):
            c = CTX.chain.txs.get(txid)
            if c is None:
                raise ClientError("simulated: transaction not found")
            return self._txobj(c, v, spent_known=self.pid not in CTX.spent_unknown)
        return self._do('gettransaction', (txid,), honest)

    def gettransactions(self, address, after_txid='', limit=20):
        def honest(v):
            txs = []
            for c in CTX.chain.history_of(self._script(address), v):
                txs.append(c)
                if c.txid == after_txid:
                    txs = []
            return [self._txobj(c, v) for c in txs[:limit]]
        return self._do('gettransactions', (address, after_txid, limit), honest)

    def getrawtransaction(self, txid):
        def honest(v):
            c = CTX.chain.txs.get(txid)
            if c is None or CTX.chain.tx_visible(c, v) is None:
                raise ClientError("simulated: transaction not found")
            return c.raw.hex()
        return self._do('getrawtransaction', (txid,), honest)

    def sendrawtransaction(self, rawtx):
        def honest(v):
            raw = bytes.fromhex(rawtx) if isinstance(rawtx, str) else bytes(rawtx)
            ok, reason, txid = CTX.chain.submit(raw)
            CTX.world.log.ev('chain_submit', ok=ok, reason=reason, txid=txid)
            if not ok:
                raise ClientError("simulated: sendrawtransaction rejected: %s" % reason)
            return {'txid': txid, 'response_dict': {'result': txid}}
        return self._do('sendrawtransaction', (rawtx if isinstance(rawtx, str) else bytes(rawtx).hex(),), honest)

    def getblock(self, blockid, parse_transactions, page, limit):
        def honest(v):
            ch = CTX.chain
            b = ch.block_at(blockid) if isinstance(blockid, int) else ch.by_hash.get(
                blockid if isinstance(blockid, str) else bytes(blockid).hex())
            if b is None or b.height > ch.visible_height(v):
                raise ClientError("simulated: block not found")
            ids = b.txids[(page - 1) * limit: page * limit] if limit else []
            if parse_transactions:
                txs = [self._txobj(ch.txs[i], v, spent_known=self.pid not in CTX.spent_unknown) for i in ids]
            else:
                txs = list(ids)
            return {'bits': b.bits, 'depth': ch.visible_height(v) - b.height + 1, 'block_hash': b.hash,
                    'height': b.height, 'merkle_root': b.merkle, 'nonce': b.nonce, 'prev_block': b.prev,
                    'time': b.time, 'tx_count': len(b.txids), 'txs': txs, 'version': b.version, 'page': page,
                    'pages': None if not limit else (len(b.txids) + limit - 1) // limit, 'limit': limit}
        return self._do('getblock', (blockid, parse_transactions, page, limit), honest)

    def isspent(self, txid, output_n):
        def honest(v):
            c = CTX.chain.txs.get(txid)
            if c is None or CTX.chain.tx_visible(c, v) is None or output_n >= len(c.tx.vout):
                raise ClientError("simulated: output not found")
            return 1 if CTX.chain.spender(txid, output_n, v) else 0
        return self._do('isspent', (txid, output_n), honest)

    def mempool(self, txid=''):
        def honest(v):
            ch = CTX.chain
            if not v.mempool:
                return []
            unconf = [t for t in ch.txs.values() if ch.tx_visible(t, v) == 'unconfirmed']
            unconf.sort(key=lambda c: c.arrival)
            if txid:
                return [txid] if any(c.txid == txid for c in unconf) else []
            return [c.txid for c in unconf]
        return self._do('mempool', (txid,), honest)

    def getinfo(self):
        def honest(v):
            ch = CTX.chain
            return {'blockcount': ch.visible_height(v), 'chain': CTX.network, 'difficulty': 1,
                    'hashrate': 1000 + self.pid, 'mempool_size': len(ch.mempool) if v.mempool else 0}
        return self._do('getinfo', (), honest)


def install(providers_json_dir, specs, network):
    """specs: list of dicts {pid, priority, [url]}.  Creates the stub module and providers.json."""
    mod = types.ModuleType('bitcoinlib.services.simprov')
    for pid in range(MAXP):
        cls = type('SimClient%d' % pid, (SimClientBase,), {'pid': pid})
        setattr(mod, cls.__name__, cls)
    _services_pkg.simprov = mod
    import sys
    sys.modules['bitcoinlib.services.simprov'] = mod
    write_providers_json(providers_json_dir, specs, network)
    return mod


def write_providers_json(providers_json_dir, specs, network):
    defs = {}
    for s in specs:
        defs['sim%d' % s['pid']] = {
            'provider': 'simprov', 'network': s.get('network', network), 'client_class': 'SimClient%d' % s['pid'],
            'provider_coin_id': '', 'url': s.get('url', 'sim://%d/' % s['pid']), 'api_key': s.get('api_key', ''),
            'priority': s['priority'], 'denominator': 1, 'network_overrides': None}
    with open(os.path.join(providers_json_dir, 'providers.json'), 'w') as f:
        json.dump(defs, f)
