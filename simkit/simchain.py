"""SimChain — the simulated blockchain ("the network").  Uses only /verif/ref (no bitcoinlib).

Holds blocks, mempool, UTXO set and a per-script history.  Transactions enter through submit(), which
applies RefNode's context + signature checks against the chain's own previous outputs, or through
fund()/coinbase(), which the simulator uses to hand coins to wallets.  Providers answer from a *view*
(tip lag, mempool visibility) of this chain.
"""
import struct
from dataclasses import dataclass, field

from ref import hashes, secp256k1 as ec, script as rscript, sighash as rsighash, refnode
from ref.txcodec import RefTx, RefIn, RefOut, parse_tx, merkle_root

MAX_MONEY = 21_000_000 * 100_000_000
FAUCET_PRIV = int.from_bytes(hashes.sha256(b'verif simchain faucet'), 'big') % (ec.N - 1) + 1


@dataclass
class ChainTx:
    tx: RefTx
    raw: bytes
    txid: str
    height: int = None          # None = mempool
    index: int = None           # position in block
    seen: float = 0.0           # simulated time first seen
    arrival: int = 0            # global arrival order
    coinbase: bool = False
    fee: int = 0
    in_values: list = field(default_factory=list)     # value of each input's prevout
    in_scripts: list = field(default_factory=list)    # scriptPubKey of each input's prevout


@dataclass
class ChainBlock:
    height: int
    hash: str
    prev: str
    merkle: str
    time: int
    version: int
    bits: int
    nonce: int
    txids: list


@dataclass
class View:
    """What one provider can see: blocks up to tip-lag, and optionally the mempool."""
    lag: int = 0
    mempool: bool = True


class SimChain:
    def __init__(self, clock, start_height=100, genesis_tag=b'sim'):
        self.clock = clock
        self.blocks = []
        self.by_hash = {}
        self.txs = {}            # txid -> ChainTx
        self.utxo = {}           # (txid, n) -> (script, value)  (unspent by chain+mempool)
        self.outs = {}           # (txid, n) -> (script, value)  every output ever created
        self.spent_by = {}       # (txid, n) -> (spending txid, input index)
        self.mempool = []        # txids in arrival order
        self.history = {}        # script -> [txid] in arrival order
        self.arrivals = 0
        self.rejected = []       # (reason, txid) of refused submissions
        self.accepted_broadcasts = []   # txids accepted through submit()
        self.faucet_pub = ec.pub_from_priv(FAUCET_PRIV, True)
        self.faucet_script = rscript.p2wpkh_script(hashes.hash160(self.faucet_pub))
        self.faucet_script_legacy = rscript.p2pkh_script(hashes.hash160(self.faucet_pub))
        self._cb_counter = 0
        # pre-history: start_height empty-ish blocks are not materialised; the first real block is start_height
        self._next_height = start_height
        self._prev_hash = hashes.sha256d(genesis_tag)[::-1].hex()
        self.mine()              # block with a faucet coinbase
        self.mine()

    # -- basic accessors ------------------------------------------------------------------------
    @property
    def tip(self):
        return self.blocks[-1].height

    def block_at(self, height):
        for b in self.blocks:
            if b.height == height:
                return b
        return None

    def visible_height(self, view):
        return max(self.blocks[0].height, self.tip - view.lag)

    def tx_visible(self, ctx, view):
        """Returns None (invisible), 'confirmed' or 'unconfirmed' for this view."""
        vh = self.visible_height(view)
        if ctx.height is not None and ctx.height <= vh:
            return 'confirmed'
        return 'unconfirmed' if view.mempool else None

    def confirmations(self, ctx, view):
        if self.tx_visible(ctx, view) != 'confirmed':
            return 0
        return self.visible_height(view) - ctx.height + 1

    def spender(self, txid, n, view):
        s = self.spent_by.get((txid, n))
        if not s:
            return None
        if self.tx_visible(self.txs[s[0]], view) is None:
            return None
        return s

    def history_of(self, script, view):
        """Transactions touching script, oldest first: confirmed by (height, index) then mempool by arrival."""
        lst = []
        for txid in self.history.get(script, []):
            c = self.txs[txid]
            st = self.tx_visible(c, view)
            if st is None:
                continue
            if st == 'confirmed':
                lst.append(((0, c.height, c.index), c))
            else:
                lst.append(((1, c.arrival, 0), c))
        lst.sort(key=lambda x: x[0])
        return [c for _, c in lst]

    def utxos_of(self, script, view):
        res = []
        for c in self.history_of(script, view):
            for n, o in enumerate(c.tx.vout):
                if o.script_pubkey == script and self.spender(c.txid, n, view) is None:
                    res.append((c, n, o.value))
        return res

    def balance_of(self, script, view):
        return sum(v for _, _, v in self.utxos_of(script, view))

    # -- creating coins ------------------------------------------------------------------------
    def _register(self, tx, raw, coinbase=False, height=None, index=None):
        txid = tx.txid()
        in_values, in_scripts = [], []
        if not coinbase:
            for i, vin in enumerate(tx.vin):
                op = (vin.prev_txid_hex(), vin.vout)
                spk, val = self.outs[op]
                in_values.append(val)
                in_scripts.append(spk)
        self.arrivals += 1
        c = ChainTx(tx=tx, raw=raw, txid=txid, height=height, index=index, seen=self.clock.now,
                    arrival=self.arrivals, coinbase=coinbase,
                    fee=0 if coinbase else sum(in_values) - sum(o.value for o in tx.vout),
                    in_values=in_values, in_scripts=in_scripts)
        self.txs[txid] = c
        touched = []
        if not coinbase:
            for i, vin in enumerate(tx.vin):
                op = (vin.prev_txid_hex(), vin.vout)
                self.utxo.pop(op, None)
                self.spent_by[op] = (txid, i)
                touched.append(in_scripts[i])
        for n, o in enumerate(tx.vout):
            self.utxo[(txid, n)] = (o.script_pubkey, o.value)
            self.outs[(txid, n)] = (o.script_pubkey, o.value)
            touched.append(o.script_pubkey)
        for s in dict.fromkeys(touched):
            self.history.setdefault(s, []).append(txid)
        if height is None:
            self.mempool.append(txid)
        return c

    def _coinbase_tx(self, height, outputs):
        self._cb_counter += 1
        sig = rscript.push(struct.pack('<I', height)[:3]) + rscript.push(b'verif%d' % self._cb_counter)
        tx = RefTx(version=1, vin=[RefIn(prev_txid=b'\0' * 32, vout=0xffffffff, script_sig=sig,
                                          sequence=0xffffffff, witness=[])],
                   vout=[RefOut(value=v, script_pubkey=s) for s, v in outputs], locktime=0, segwit=False)
        return tx

    def mine(self, max_txs=None, extra_coinbase_outputs=()):
        """Mine a block containing the mempool (first max_txs entries) on top of the tip."""
        height = self._next_height
        outs = [(self.faucet_script, 50 * 100_000_000), (self.faucet_script_legacy, 10 * 100_000_000)] + \
            list(extra_coinbase_outputs)
        cb = self._coinbase_tx(height, outs)
        take = self.mempool if max_txs is None else self._closed_prefix(max_txs)
        txids = [cb.txid()] + list(take)
        t = int(self.clock.now)
        if self.blocks and t <= self.blocks[-1].time:
            t = self.blocks[-1].time + 1
        mr = merkle_root(txids)
        version, bits, nonce = 0x20000000, 0x1d00ffff, height & 0xffffffff
        header = struct.pack('<I', version) + bytes.fromhex(self._prev_hash)[::-1] + bytes.fromhex(mr)[::-1] + \
            struct.pack('<III', t, bits, nonce)
        bh = hashes.sha256d(header)[::-1].hex()
        blk = ChainBlock(height=height, hash=bh, prev=self._prev_hash, merkle=mr, time=t, version=version,
                         bits=bits, nonce=nonce, txids=txids)
        self.blocks.append(blk)
        self.by_hash[bh] = blk
        self._register(cb, cb.serialize(), coinbase=True, height=height, index=0)
        for i, txid in enumerate(take):
            c = self.txs[txid]
            c.height = height
            c.index = i + 1
        self.mempool = [t_ for t_ in self.mempool if t_ not in set(take)]
        self._prev_hash = bh
        self._next_height = height + 1
        return blk

    def _closed_prefix(self, k):
        """First k mempool txs, closed under ancestry (a child is never mined before its parent)."""
        take, taken = [], set()
        for txid in self.mempool:
            if len(take) >= k:
                break
            c = self.txs[txid]
            ok = True
            for vin in c.tx.vin:
                p = self.txs.get(vin.prev_txid_hex())
                if p is not None and p.height is None and p.txid not in taken:
                    ok = False
                    break
            if ok:
                take.append(txid)
                taken.add(txid)
        return take

    def fund(self, outputs, fee=1000, sequence=0xffffffff, version=2, locktime=0, legacy=False):
        """Pay outputs [(script, value)] from the faucet with a real, signed P2WPKH (or, legacy=True, P2PKH) spend
        (mempool)."""
        need = sum(v for _, v in outputs) + fee
        picked, tot = [], 0
        from_script = self.faucet_script_legacy if legacy else self.faucet_script
        for op, (spk, val) in self.utxo.items():
            if spk == from_script and self.txs[op[0]].height is not None:
                picked.append((op, val))
                tot += val
                if tot >= need:
                    break
        if tot < need:
            self.mine()
            return self.fund(outputs, fee, sequence, version, locktime, legacy)
        vin = [RefIn(prev_txid=bytes.fromhex(op[0])[::-1], vout=op[1], script_sig=b'', sequence=sequence, witness=[])
               for op, _ in picked]
        vout = [RefOut(value=v, script_pubkey=s) for s, v in outputs]
        if tot - need > 0:
            vout.append(RefOut(value=tot - need, script_pubkey=from_script))
        tx = RefTx(version=version, vin=vin, vout=vout, locktime=locktime, segwit=not legacy)
        code = rscript.p2pkh_script(hashes.hash160(self.faucet_pub))
        for i, (op, val) in enumerate(picked):
            if legacy:
                z = int.from_bytes(rsighash.legacy_sighash(tx, i, code, 1), 'big')
                r, s = ec.ecdsa_sign(FAUCET_PRIV, z)
                tx.vin[i].script_sig = rscript.push(ec.ser_der(r, s) + b'\x01') + rscript.push(self.faucet_pub)
                continue
            z = int.from_bytes(rsighash.bip143_sighash(tx, i, code, val, 1), 'big')
            r, s = ec.ecdsa_sign(FAUCET_PRIV, z)
            tx.vin[i].witness = [ec.ser_der(r, s) + b'\x01', self.faucet_pub]
        raw = tx.serialize()
        ok, reason, txid = self.submit(raw, record=False)
        if not ok:
            raise RuntimeError("faucet transaction rejected: %s" % reason)
        return txid

    # -- accepting transactions from the system under test -----------------------------------------
    def check(self, raw):
        """RefNode verdict for raw bytes against this chain.  Returns (ok, reason, tx, verdict)."""
        try:
            tx = parse_tx(raw)
        except Exception as e:
            return False, 'decode-failed: %s' % e, None, None
        txid = tx.txid()
        if txid in self.txs:
            return False, 'already-known', tx, None
        prevouts = {}
        for vin in tx.vin:
            op = (vin.prev_txid_hex(), vin.vout)
            if op in self.utxo:
                prevouts[op] = self.utxo[op]
            elif op in self.spent_by:
                return False, 'txn-mempool-conflict' if self.txs[self.spent_by[op][0]].height is None \
                    else 'missing-inputs-spent', tx, None
            else:
                return False, 'missing-inputs', tx, None
        if tx.locktime:
            final = all(v.sequence == 0xffffffff for v in tx.vin)
            if not final:
                if tx.locktime < 500_000_000:
                    if tx.locktime > self.tip:      # valid in next block iff locktime < next height
                        return False, 'non-final', tx, None
                elif tx.locktime > self.clock.now:
                    return False, 'non-final', tx, None
        verdict = refnode.verify_tx(tx, prevouts)
        if not verdict.ok:
            return False, verdict.reason, tx, verdict
        return True, '', tx, verdict

    def submit(self, raw, record=True):
        ok, reason, tx, verdict = self.check(raw)
        if not ok:
            if record:
                self.rejected.append((reason, tx.txid() if tx else None))
            return False, reason, tx.txid() if tx else None
        c = self._register(tx, raw)
        if record:
            self.accepted_broadcasts.append(c.txid)
        return True, '', c.txid
