#!/bin/bash
# Development tool: run the quick tier of every check (or the given ones) for several VERIF_SEED values.
# usage: tools/multiseed.sh "2 3 4" [C08 C07 ...]
seeds=${1:-"2 3 4 5"}
shift
props=${@:-"C20 C08 C07 C09 C10 C02 C15 C16"}
cd "$(dirname "$0")/.."
for s in $seeds; do
  for p in $props; do
    out=$(./check $p --tier quick --seed $s --no-evidence 2>&1 | grep -v "^KNOWN-FINDING\|^  seen")
    echo "== seed $s $p: $(echo "$out" | tail -1)"
    echo "$out" | grep -A3 "^VIOLATION\|HARNESS-ERROR" | cut -c1-700
  done
done
