#!/bin/bash
# Development tool: re-run the registered quick check of each seeded change's property against a scratch copy of
# /repo with that change applied (never /repo itself) and report caught / MISSED.  Patches that no longer apply
# (the library was repaired in the meantime at that spot) are reported as such.
# usage: tools/reeval_seeded.sh [ids...]      (default: every directory under seeded/)
cd "$(dirname "$0")/.."; V=$(pwd)
ids="$@"; [ -z "$ids" ] && ids=$(ls seeded | grep -v "INDEX\|^_")
for id in $ids; do
  prop=$(python3 -c "import json;print(json.load(open('seeded/$id/meta.json'))['property'])")
  S=/dev/shm/mutre/$id; rm -rf $S; mkdir -p $S
  cp -r /repo $S/repo; rm -rf $S/repo/.git
  if ! ( cd $S/repo && patch -p1 -s --no-backup-if-mismatch < $V/seeded/$id/patch.diff ) > $S/patch.log 2>&1; then
    echo "$id $prop PATCH-DOES-NOT-APPLY"; rm -rf $S; continue
  fi
  out=$(VERIF_MAX_REPLAYS=3 ./check $prop --repo $S/repo --no-evidence --tier quick 2>&1)
  cls=$(echo "$out" | grep "^  class=" | sort | uniq -c | sort -rn | head -3 | sed 's/^ *//' | tr '\n' ';' | cut -c1-300)
  if echo "$out" | grep -q "^VIOLATION property=$prop"; then echo "$id $prop caught: $cls"; else echo "$id $prop MISSED: $(echo "$out" | tail -1 | cut -c1-200)"; fi
  rm -rf $S $V/replays
done
rmdir /dev/shm/mutre 2>/dev/null
