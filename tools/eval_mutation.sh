#!/bin/bash
# Development tool: evaluate one seeded change in a scratch copy of /repo (never in /repo itself).
# usage: tools/eval_mutation.sh <name> <property> <patch.diff> <demo.py> [extra check args]
name=$1; prop=$2; patch=$3; demo=$4; shift 4
S=/dev/shm/mutev/$name
rm -rf $S; mkdir -p $S
cp -r /repo $S/repo; rm -rf $S/repo/.git
# demonstrations locate the tree relative to their own path (<tree>/MUTATION/<X>/demo.py): keep that layout
mkdir -p $S/repo/MUTATION/X; cp $demo $S/repo/MUTATION/X/demo.py; demo=$S/repo/MUTATION/X/demo.py
sed -i "s|'/tmp/mut/[A-Za-z0-9]*-[a-z]/'|'$S/repo/'|g; s|\"/tmp/mut/[A-Za-z0-9]*-[a-z]/\"|\"$S/repo/\"|g" $demo
export BCL_DATA_DIR=$S/data; mkdir -p $S/data
echo "--- demo on unchanged tree"
( cd $S/repo && PYTHONPATH=$S/repo timeout 600 /venv/bin/python $demo > $S/demo_clean.log 2>&1; echo "exit $?"; tail -2 $S/demo_clean.log )
( cd $S/repo && patch -p1 -s < $patch ) || { echo "PATCH FAILED"; exit 9; }
rm -rf $S/data; mkdir -p $S/data
echo "--- demo with the change"
( cd $S/repo && PYTHONPATH=$S/repo timeout 600 /venv/bin/python $demo > $S/demo_mut.log 2>&1; echo "exit $?"; tail -3 $S/demo_mut.log )
unset BCL_DATA_DIR
echo "--- check $prop against the changed tree"
cd /verif && ./check $prop --repo $S/repo --no-evidence "$@" 2>&1 | grep -v "^KNOWN-FINDING\|^  seen" | grep "^VIOLATION\|^  class\|^$prop\|HARNESS" | cut -c1-400 | head -12
rm -rf $S
