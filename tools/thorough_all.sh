#!/bin/bash
# Development tool: run every registered thorough command once (seed from $1, default 0) and print the summaries.
cd "$(dirname "$0")/.."
seed=${1:-0}
for p in C20 C08 C07 C09 C10 C02 C15 C16; do
  echo "== thorough seed $seed $p: $(date +%H:%M:%S)"
  VERIF_MAX_REPLAYS=4 ./check $p --tier thorough --seed $seed --no-evidence 2>&1 | grep "^VIOLATION\|^  class\|thorough:\|HARNESS" | cut -c1-400
done
