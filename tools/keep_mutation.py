#!/usr/bin/env python3
"""Development tool: file a confirmed seeded change under /verif/seeded/<id>/.
usage: keep_mutation.py <id> <property> <srcdir with patch.diff demo.py notes.md> <needs> <caught_by> [ran]"""
import json, os, shutil, sys
mid, prop, src, needs, caught = sys.argv[1:6]
ran = sys.argv[6] if len(sys.argv) > 6 else ''
d = '/verif/seeded/%s' % mid
os.makedirs(d, exist_ok=True)
for f in ('patch.diff', 'demo.py', 'notes.md'):
    if os.path.exists(os.path.join(src, f)):
        shutil.copy(os.path.join(src, f), os.path.join(d, f))
json.dump({'id': mid, 'property': prop, 'origin': 'independent sub-agent given only the property text and a scratch worktree',
           'needs_to_manifest': needs, 'confirmed': 'demo.py exits 0 on the unchanged tree and 1 with patch.diff applied (scratch copy of /repo, tools/eval_mutation.sh); '
           'the sub-agent reported no new failures in the offline tests it ran', 'what_was_run': ran, 'caught_by': caught},
          open(os.path.join(d, 'meta.json'), 'w'), indent=1)
print('kept', d)
