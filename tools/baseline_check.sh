#!/bin/bash
# Development tool: run the pinned baseline command on /repo and report stable_pass tests that no longer pass.
cd /repo && timeout 1500 /venv/bin/python -m pytest -ra -q -p no:cacheprovider --timeout=900 --continue-on-collection-errors --junitxml=/tmp/baseline.junit.xml > /tmp/baseline.log 2>&1
/venv/bin/python - <<'PY'
import json, xml.etree.ElementTree as ET
b = json.load(open('/root/.vp/BASELINE.json'))
want = set(b['stable_pass'])
t = ET.parse('/tmp/baseline.junit.xml')
passed = set()
for tc in t.iter('testcase'):
    name = '%s::%s' % (tc.get('classname'), tc.get('name'))
    if not any(c.tag in ('failure', 'error', 'skipped') for c in tc):
        passed.add(name)
missing = sorted(want - passed)
print('baseline: %d stable_pass, %d passed now, %d missing' % (len(want), len(passed & want), len(missing)))
for m in missing[:20]:
    print('  MISSING', m)
PY
