#!/usr/bin/env python3
"""Development tool: apply a textual mutation to a scratch copy of /repo and run a check against it.
usage: sens.py <property> <file> <old> <new> [runs]"""
import os, shutil, subprocess, sys
prop, f, old, new = sys.argv[1:5]
runs = sys.argv[5] if len(sys.argv) > 5 else '300'
d = '/dev/shm/mut/repo'
shutil.rmtree('/dev/shm/mut', ignore_errors=True)
os.makedirs('/dev/shm/mut')
subprocess.check_call(['cp', '-r', '/repo', d])
p = os.path.join(d, f)
s = open(p).read()
assert s.count(old) >= 1, 'pattern not found'
s = s.replace(old, new, 1)
open(p, 'w').write(s)
r = subprocess.run(['/verif/check', prop, '--repo', d, '--runs', runs, '--no-evidence'], capture_output=True, text=True)
lines = [l for l in r.stdout.splitlines() if l.startswith('VIOLATION') or l.startswith('  class') or l.startswith(prop)]
print('exit', r.returncode)
print('\n'.join(lines[:12]))
if r.returncode == 2:
    print(r.stderr[-2000:])
shutil.rmtree('/dev/shm/mut', ignore_errors=True)
