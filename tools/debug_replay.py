#!/venv/bin/python
"""Development helper: execute a replay file in this process (no fork) and print the trace; an optional python
snippet file is exec'ed with `world`/`sim` in scope when the violation is raised (post-mortem)."""
import importlib
import json
import os
import shutil
import sys
import time

VERIF = os.path.dirname(os.path.dirname(os.path.abspath(__file__)))
sys.path.insert(0, VERIF)
if os.environ.get('PYTHONHASHSEED') != '0':
    os.environ['PYTHONHASHSEED'] = '0'
    os.execv(sys.executable, [sys.executable] + sys.argv)

from scenarios.specs import SPECS
from simkit import runner


def main():
    rp = json.load(open(sys.argv[1]))
    repo = os.environ.get('VERIF_REPO', '/repo')
    spec = SPECS[rp['property']]
    arm = [a for a in spec['arms'] if a['name'] == rp['arm']][0]
    base = '/dev/shm/verif-debug-%d' % os.getpid()
    shutil.rmtree(base, ignore_errors=True)
    os.makedirs(base)
    os.environ['TZ'] = 'UTC'
    time.tzset()
    d = runner._prepare_datadir(base, 0, arm, repo)
    os.environ['BCL_DATA_DIR'] = d
    for k, v in arm.get('env', {}).items():
        os.environ[k] = v
    runner._import_library(repo, keep_logging=bool(arm.get('library_logging')))
    scen = importlib.import_module(arm['module'])
    if hasattr(scen, 'init_worker'):
        scen.init_worker(d)
    task = {'id': 0, 'prop': rp['property'], 'arm': rp['arm'], 'tier': rp['tier'], 'seed': rp['run_seed'],
            'blocks': rp['choices'], 'want_trace': True, 'arm_params': rp.get('arm_params', {})}
    if len(sys.argv) > 2:
        scen.DEBUG_HOOK = open(sys.argv[2]).read()
    res = runner._execute(task, scen, base, 0, runner.load_known())
    for line in res['trace']:
        print(line)
    if res.get('harness_error'):
        print(res['harness_error'])
    print('violations:', [(v['class'], v['message']) for v in res['violations']])
    shutil.rmtree(base, ignore_errors=True)


main()
