"""Transaction / block (de)serialization: legacy and BIP144 formats."""
import io
import struct
from dataclasses import dataclass, field
from .hashes import sha256d


def _read(stream, n: int) -> bytes:
    b = stream.read(n)
    if len(b) != n:
        raise ValueError('truncated data')
    return b


def read_varint(stream) -> int:
    """Bitcoin CompactSize; non-canonical encodings are rejected like Bitcoin Core does."""
    first = _read(stream, 1)[0]
    if first < 0xfd:
        return first
    size, minimum = {0xfd: (2, 0xfd), 0xfe: (4, 0x10000), 0xff: (8, 0x100000000)}[first]
    n = int.from_bytes(_read(stream, size), 'little')
    if n < minimum:
        raise ValueError('non-canonical varint')
    return n


def ser_varint(n: int) -> bytes:
    if n < 0 or n >= 1 << 64:
        raise ValueError('varint out of range')
    if n < 0xfd:
        return bytes([n])
    if n <= 0xffff:
        return b'\xfd' + n.to_bytes(2, 'little')
    if n <= 0xffffffff:
        return b'\xfe' + n.to_bytes(4, 'little')
    return b'\xff' + n.to_bytes(8, 'little')


def ser_string(b: bytes) -> bytes:
    return ser_varint(len(b)) + b


@dataclass
class RefIn:
    prev_txid: bytes  # serialization order (little-endian = reversed explorer hex)
    vout: int
    script_sig: bytes = b''
    sequence: int = 0xffffffff
    witness: list = field(default_factory=list)

    def prev_txid_hex(self) -> str:
        return self.prev_txid[::-1].hex()

    def outpoint(self) -> bytes:
        return self.prev_txid + struct.pack('<I', self.vout)

    def serialize(self) -> bytes:
        return self.outpoint() + ser_string(self.script_sig) + struct.pack('<I', self.sequence)

    def is_coinbase(self) -> bool:
        return self.prev_txid == b'\x00' * 32 and self.vout == 0xffffffff


@dataclass
class RefOut:
    value: int
    script_pubkey: bytes

    def serialize(self) -> bytes:
        return struct.pack('<q', self.value) + ser_string(self.script_pubkey)


@dataclass
class RefTx:
    version: int
    vin: list
    vout: list
    locktime: int = 0
    segwit: bool = False  # True when parsed from the BIP144 (marker/flag) form

    def has_witness(self) -> bool:
        return any(i.witness for i in self.vin)

    def serialize(self, with_witness=True) -> bytes:
        wit = with_witness and self.has_witness()
        out = [struct.pack('<I', self.version)]
        if wit:
            out.append(b'\x00\x01')
        out.append(ser_varint(len(self.vin)))
        out.extend(i.serialize() for i in self.vin)
        out.append(ser_varint(len(self.vout)))
        out.extend(o.serialize() for o in self.vout)
        if wit:
            for i in self.vin:
                out.append(ser_varint(len(i.witness)))
                out.extend(ser_string(w) for w in i.witness)
        out.append(struct.pack('<I', self.locktime))
        return b''.join(out)

    def txid(self) -> str:
        return sha256d(self.serialize(False))[::-1].hex()

    def wtxid(self) -> str:
        return sha256d(self.serialize(True))[::-1].hex()

    def weight(self) -> int:
        return 3 * len(self.serialize(False)) + len(self.serialize(True))

    def vsize(self) -> int:
        return (self.weight() + 3) // 4

    def is_coinbase(self) -> bool:
        return len(self.vin) == 1 and self.vin[0].is_coinbase()


def parse_tx_stream(stream) -> RefTx:
    version = struct.unpack('<I', _read(stream, 4))[0]
    segwit = False
    n_in = read_varint(stream)
    if n_in == 0:  # BIP144 marker; flag must be 0x01
        if _read(stream, 1) != b'\x01':
            raise ValueError('bad segwit flag (or transaction without inputs)')
        segwit = True
        n_in = read_varint(stream)
    vin = []
    for _ in range(n_in):
        txid = _read(stream, 32)
        vout = struct.unpack('<I', _read(stream, 4))[0]
        script = _read(stream, read_varint(stream))
        vin.append(RefIn(txid, vout, script, struct.unpack('<I', _read(stream, 4))[0], []))
    vouts = []
    for _ in range(read_varint(stream)):
        value = struct.unpack('<q', _read(stream, 8))[0]
        vouts.append(RefOut(value, _read(stream, read_varint(stream))))
    if segwit:
        for i in vin:
            i.witness = [_read(stream, read_varint(stream)) for _ in range(read_varint(stream))]
        if not any(i.witness for i in vin):
            raise ValueError('superfluous witness record')
    locktime = struct.unpack('<I', _read(stream, 4))[0]
    return RefTx(version, vin, vouts, locktime, segwit)


def parse_tx(raw: bytes) -> RefTx:
    stream = io.BytesIO(bytes(raw))
    tx = parse_tx_stream(stream)
    if stream.read(1):
        raise ValueError('trailing bytes after transaction')
    return tx


def merkle_root(txids: list) -> str:
    """Merkle root of explorer-order hex txids, returned in explorer order."""
    if not txids:
        raise ValueError('no txids')
    level = [bytes.fromhex(t)[::-1] for t in txids]
    while len(level) > 1:
        if len(level) & 1:
            level.append(level[-1])
        level = [sha256d(level[i] + level[i + 1]) for i in range(0, len(level), 2)]
    return level[0][::-1].hex()


@dataclass
class RefBlock:
    version: int
    prev_hash: bytes    # serialization order
    merkle_root: bytes  # serialization order
    time: int
    bits: int
    nonce: int
    txs: list
    header: bytes

    def hash(self) -> str:
        return sha256d(self.header)[::-1].hex()

    def prev_hash_hex(self) -> str:
        return self.prev_hash[::-1].hex()

    def merkle_root_hex(self) -> str:
        return self.merkle_root[::-1].hex()

    def target(self) -> int:
        exp, mant = self.bits >> 24, self.bits & 0x007fffff
        return mant >> (8 * (3 - exp)) if exp <= 3 else mant << (8 * (exp - 3))

    def check_pow(self) -> bool:
        return not self.bits & 0x00800000 and 0 < self.target() and int(self.hash(), 16) <= self.target()


def parse_block(raw: bytes) -> RefBlock:
    stream = io.BytesIO(bytes(raw))
    header = _read(stream, 80)
    version, prev, root, time, bits, nonce = struct.unpack('<I32s32sIII', header)
    txs = [parse_tx_stream(stream) for _ in range(read_varint(stream))]
    if stream.read(1):
        raise ValueError('trailing bytes after block')
    return RefBlock(version, prev, root, time, bits, nonce, txs, header)
