"""Hash helpers (stdlib only)."""
import hashlib
import hmac as _hmac


def sha256(b: bytes) -> bytes:
    return hashlib.sha256(b).digest()


def sha256d(b: bytes) -> bytes:
    return hashlib.sha256(hashlib.sha256(b).digest()).digest()


def ripemd160(b: bytes) -> bytes:
    return hashlib.new('ripemd160', b).digest()


def hash160(b: bytes) -> bytes:
    return ripemd160(sha256(b))


def hmac_sha512(key: bytes, msg: bytes) -> bytes:
    return _hmac.new(key, msg, hashlib.sha512).digest()


def hmac_sha256(key: bytes, msg: bytes) -> bytes:
    return _hmac.new(key, msg, hashlib.sha256).digest()
