"""Self-test of the reference library against data that does not come from bitcoinlib code:
published BIP vectors, real mainnet blocks, self-consistency and an import scan.

    cd /verif && /venv/bin/python -m ref.selftest [--quick] [-v]
"""
import ast
import io
import json
import os
import pickle
import sys
import time
from collections import Counter
from . import codec, script as sc, secp256k1 as ec, sighash as sh
from .bip32 import RefHDNode, parse_xkey
from .hashes import sha256, hash160
from .refnode import verify_input, verify_tx, scriptsig_stack
from .txcodec import RefIn, RefOut, RefTx, parse_tx, parse_block, merkle_root, ser_varint, read_varint

HERE = os.path.dirname(os.path.abspath(__file__))
REPO_TESTS = '/repo/tests'
NETWORKS_JSON = '/repo/bitcoinlib/data/networks.json'
BLOCKS = (250000, 330000, 625007, 629999, 722010)
BIP66_HEIGHT = 363725
H = bytes.fromhex
XPUB, XPRV = H('0488B21E'), H('0488ADE4')

# ---------------------------------------------------------------- (a) published vectors
BIP32_VECTORS = [
    ('000102030405060708090a0b0c0d0e0f', [
        ('m',
         'xpub661MyMwAqRbcFtXgS5sYJABqqG9YLmC4Q1Rdap9gSE8NqtwybGhePY2gZ29ESFjqJoCu1Rupje8YtGqsefD265TMg7usUDFdp6W1EGMcet8',
         'xprv9s21ZrQH143K3QTDL4LXw2F7HEK3wJUD2nW2nRk4stbPy6cq3jPPqjiChkVvvNKmPGJxWUtg6LnF5kejMRNNU3TGtRBeJgk33yuGBxrMPHi'),
        ("m/0'",
         'xpub68Gmy5EdvgibQVfPdqkBBCHxA5htiqg55crXYuXoQRKfDBFA1WEjWgP6LHhwBZeNK1VTsfTFUHCdrfp1bgwQ9xv5ski8PX9rL2dZXvgGDnw',
         'xprv9uHRZZhk6KAJC1avXpDAp4MDc3sQKNxDiPvvkX8Br5ngLNv1TxvUxt4cV1rGL5hj6KCesnDYUhd7oWgT11eZG7XnxHrnYeSvkzY7d2bhkJ7'),
        ("m/0'/1",
         'xpub6ASuArnXKPbfEwhqN6e3mwBcDTgzisQN1wXN9BJcM47sSikHjJf3UFHKkNAWbWMiGj7Wf5uMash7SyYq527Hqck2AxYysAA7xmALppuCkwQ',
         'xprv9wTYmMFdV23N2TdNG573QoEsfRrWKQgWeibmLntzniatZvR9BmLnvSxqu53Kw1UmYPxLgboyZQaXwTCg8MSY3H2EU4pWcQDnRnrVA1xe8fs'),
        ("m/0'/1/2'",
         'xpub6D4BDPcP2GT577Vvch3R8wDkScZWzQzMMUm3PWbmWvVJrZwQY4VUNgqFJPMM3No2dFDFGTsxxpG5uJh7n7epu4trkrX7x7DogT5Uv6fcLW5',
         'xprv9z4pot5VBttmtdRTWfWQmoH1taj2axGVzFqSb8C9xaxKymcFzXBDptWmT7FwuEzG3ryjH4ktypQSAewRiNMjANTtpgP4mLTj34bhnZX7UiM'),
        ("m/0'/1/2'/2",
         'xpub6FHa3pjLCk84BayeJxFW2SP4XRrFd1JYnxeLeU8EqN3vDfZmbqBqaGJAyiLjTAwm6ZLRQUMv1ZACTj37sR62cfN7fe5JnJ7dh8zL4fiyLHV',
         'xprvA2JDeKCSNNZky6uBCviVfJSKyQ1mDYahRjijr5idH2WwLsEd4Hsb2Tyh8RfQMuPh7f7RtyzTtdrbdqqsunu5Mm3wDvUAKRHSC34sJ7in334'),
        ("m/0'/1/2'/2/1000000000",
         'xpub6H1LXWLaKsWFhvm6RVpEL9P4KfRZSW7abD2ttkWP3SSQvnyA8FSVqNTEcYFgJS2UaFcxupHiYkro49S8yGasTvXEYBVPamhGW6cFJodrTHy',
         'xprvA41z7zogVVwxVSgdKUHDy1SKmdb533PjDz7J6N6mV6uS3ze1ai8FHa8kmHScGpWmj4WggLyQjgPie1rFSruoUihUZREPSL39UNdE3BBDu76'),
    ]),
    ('fffcf9f6f3f0edeae7e4e1dedbd8d5d2cfccc9c6c3c0bdbab7b4b1aeaba8a5a29f9c999693908d8a8784817e7b7875726f6c69'
     '6663605d5a5754514e4b484542', [
        ('m',
         'xpub661MyMwAqRbcFW31YEwpkMuc5THy2PSt5bDMsktWQcFF8syAmRUapSCGu8ED9W6oDMSgv6Zz8idoc4a6mr8BDzTJY47LJhkJ8UB7WEGuduB',
         'xprv9s21ZrQH143K31xYSDQpPDxsXRTUcvj2iNHm5NUtrGiGG5e2DtALGdso3pGz6ssrdK4PFmM8NSpSBHNqPqm55Qn3LqFtT2emdEXVYsCzC2U'),
        ('m/0',
         'xpub69H7F5d8KSRgmmdJg2KhpAK8SR3DjMwAdkxj3ZuxV27CprR9LgpeyGmXUbC6wb7ERfvrnKZjXoUmmDznezpbZb7ap6r1D3tgFxHmwMkQTPH',
         'xprv9vHkqa6EV4sPZHYqZznhT2NPtPCjKuDKGY38FBWLvgaDx45zo9WQRUT3dKYnjwih2yJD9mkrocEZXo1ex8G81dwSM1fwqWpWkeS3v86pgKt'),
        ("m/0/2147483647'",
         'xpub6ASAVgeehLbnwdqV6UKMHVzgqAG8Gr6riv3Fxxpj8ksbH9ebxaEyBLZ85ySDhKiLDBrQSARLq1uNRts8RuJiHjaDMBU4Zn9h8LZNnBC5y4a',
         'xprv9wSp6B7kry3Vj9m1zSnLvN3xH8RdsPP1Mh7fAaR7aRLcQMKTR2vidYEeEg2mUCTAwCd6vnxVrcjfy2kRgVsFawNzmjuHc2YmYRmagcEPdU9'),
        ("m/0/2147483647'/1",
         'xpub6DF8uhdarytz3FWdA8TvFSvvAh8dP3283MY7p2V4SeE2wyWmG5mg5EwVvmdMVCQcoNJxGoWaU9DCWh89LojfZ537wTfunKau47EL2dhHKon',
         'xprv9zFnWC6h2cLgpmSA46vutJzBcfJ8yaJGg8cX1e5StJh45BBciYTRXSd25UEPVuesF9yog62tGAQtHjXajPPdbRCHuWS6T8XA2ECKADdw4Ef'),
        ("m/0/2147483647'/1/2147483646'",
         'xpub6ERApfZwUNrhLCkDtcHTcxd75RbzS1ed54G1LkBUHQVHQKqhMkhgbmJbZRkrgZw4koxb5JaHWkY4ALHY2grBGRjaDMzQLcgJvLJuZZvRcEL',
         'xprvA1RpRA33e1JQ7ifknakTFpgNXPmW2YvmhqLQYMmrj4xJXXWYpDPS3xz7iAxn8L39njGVyuoseXzU6rcxFLJ8HFsTjSyQbLYnMpCqE2VbFWc'),
        ("m/0/2147483647'/1/2147483646'/2",
         'xpub6FnCn6nSzZAw5Tw7cgR9bi15UV96gLZhjDstkXXxvCLsUXBGXPdSnLFbdpq8p9HmGsApME5hQTZ3emM2rnY5agb9rXpVGyy3bdW6EEgAtqt',
         'xprvA2nrNbFZABcdryreWet9Ea4LvTJcGsqrMzxHx98MMrotbir7yrKCEXw7nadnHM8Dq38EGfSh6dqA9QWTyefMLEcBYJUuekgW4BYPJcr9E7j'),
    ]),
    # vector 3: retention of leading zeros
    ('4b381541583be4423346c643850da4b320e46a87ae3d2a4e6da11eba819cd4acba45d239319ac14f863b8d5ab5a0d0c64d2e8a1e7d1457'
     'df2e5a3c51c73235be', [
        ('m',
         'xpub661MyMwAqRbcEZVB4dScxMAdx6d4nFc9nvyvH3v4gJL378CSRZiYmhRoP7mBy6gSPSCYk6SzXPTf3ND1cZAceL7SfJ1Z3GC8vBgp2epUt13',
         'xprv9s21ZrQH143K25QhxbucbDDuQ4naNntJRi4KUfWT7xo4EKsHt2QJDu7KXp1A3u7Bi1j8ph3EGsZ9Xvz9dGuVrtHHs7pXeTzjuxBrCmmhgC6'),
        ("m/0'",
         'xpub68NZiKmJWnxxS6aaHmn81bvJeTESw724CRDs6HbuccFQN9Ku14VQrADWgqbhhTHBaohPX4CjNLf9fq9MYo6oDaPPLPxSb7gwQN3ih19Zm4Y',
         'xprv9uPDJpEQgRQfDcW7BkF7eTya6RPxXeJCqCJGHuCJ4GiRVLzkTXBAJMu2qaMWPrS7AANYqdq6vcBcBUdJCVVFceUvJFjaPdGZ2y9WACViL4L'),
    ]),
]

BECH32_VALID = [
    ('BC1QW508D6QEJXTDG4Y5R3ZARVARY0C5XW7KV8F3T4', '0014751e76e8199196d454941c45d1b3a323f1433bd6'),
    ('tb1qrp33g0q5c5txsp9arysrx4k6zdkfs4nce4xj0gdcccefvpysxf3q0sl5k7',
     '00201863143c14c5166804bd19203356da136c985678cd4d27a1b8c6329604903262'),
    ('bc1pw508d6qejxtdg4y5r3zarvary0c5xw7kw508d6qejxtdg4y5r3zarvary0c5xw7kt5nd6y',
     '5128751e76e8199196d454941c45d1b3a323f1433bd6751e76e8199196d454941c45d1b3a323f1433bd6'),
    ('BC1SW50QGDZ25J', '6002751e'),
    ('bc1zw508d6qejxtdg4y5r3zarvaryvaxxpcs', '5210751e76e8199196d454941c45d1b3a323'),
    ('tb1qqqqqp399et2xygdj5xreqhjjvcmzhxw4aywxecjdzew6hylgvsesrxh6hy',
     '0020000000c4a5cad46221b2a187905e5266362b99d5e91c6ce24d165dab93e86433'),
    ('tb1pqqqqp399et2xygdj5xreqhjjvcmzhxw4aywxecjdzew6hylgvsesf3hn0c',
     '5120000000c4a5cad46221b2a187905e5266362b99d5e91c6ce24d165dab93e86433'),
    ('bc1p0xlxvlhemja6c4dqv22uapctqupfhlxm9h8z3k2e72q4k9hcz7vqzk5jj0',
     '512079be667ef9dcbbac55a06295ce870b07029bfcdb2dce28d959f2815b16f81798'),
]
BECH32_INVALID = [  # BIP173 + BIP350 invalid segwit addresses
    'tc1qw508d6qejxtdg4y5r3zarvary0c5xw7kg3g4ty', 'bc1qw508d6qejxtdg4y5r3zarvary0c5xw7kv8f3t5',
    'BC13W508D6QEJXTDG4Y5R3ZARVARY0C5XW7KN40WF2', 'bc1rw5uspcuh',
    'bc10w508d6qejxtdg4y5r3zarvary0c5xw7kw508d6qejxtdg4y5r3zarvary0c5xw7kw5rljs90',
    'BC1QR508D6QEJXTDG4Y5R3ZARVARYV98GJ9P', 'tb1qrp33g0q5c5txsp9arysrx4k6zdkfs4nce4xj0gdcccefvpysxf3q0sL5k7',
    'bc1zw508d6qejxtdg4y5r3zarvaryvqyzf3du', 'tb1qrp33g0q5c5txsp9arysrx4k6zdkfs4nce4xj0gdcccefvpysxf3pjxtptv',
    'bc1gmk9yu', 'tc1p0xlxvlhemja6c4dqv22uapctqupfhlxm9h8z3k2e72q4k9hcz7vq5zuyut',
    'bc1p0xlxvlhemja6c4dqv22uapctqupfhlxm9h8z3k2e72q4k9hcz7vqh2y7hd',
    'tb1z0xlxvlhemja6c4dqv22uapctqupfhlxm9h8z3k2e72q4k9hcz7vqglt7rf',
    'BC1S0XLXVLHEMJA6C4DQV22UAPCTQUPFHLXM9H8Z3K2E72Q4K9HCZ7VQ54WELL',
    'bc1qw508d6qejxtdg4y5r3zarvary0c5xw7kemeawh', 'tb1q0xlxvlhemja6c4dqv22uapctqupfhlxm9h8z3k2e72q4k9hcz7vq24jc47',
    'bc1p38j9r5y49hruaue7wxjce0updqjuyyx0kh56v8s25huc6995vvpql3jow4',
    'BC130XLXVLHEMJA6C4DQV22UAPCTQUPFHLXM9H8Z3K2E72Q4K9HCZ7VQ7ZWS8R', 'bc1pw5dgrnzv',
    'bc1p0xlxvlhemja6c4dqv22uapctqupfhlxm9h8z3k2e72q4k9hcz7v8n0nx0muaewav253zgeav',
    'tb1p0xlxvlhemja6c4dqv22uapctqupfhlxm9h8z3k2e72q4k9hcz7vq47Zagq',
    'bc1p0xlxvlhemja6c4dqv22uapctqupfhlxm9h8z3k2e72q4k9hcz7v07qwwzcrf',
    'tb1p0xlxvlhemja6c4dqv22uapctqupfhlxm9h8z3k2e72q4k9hcz7vpggkg4j',
]


def raises(fn, *a, exc=ValueError):
    try:
        fn(*a)
    except exc:
        return True
    return False


def test_vectors():
    n = 0
    # --- RFC6979 / ECDSA well-known secp256k1 vector (key 1, "Satoshi Nakamoto")
    z = int.from_bytes(sha256(b'Satoshi Nakamoto'), 'big')
    assert ec.ecdsa_sign(1, z) == (0x934b1ea10a4b3c1757e2b0c017d0b6143ce3c9a7e6a4a49860d7a6ab210ee3d8,
                                   0x2442ce9d2b916064108014783e923ec36b49743e2ffa1c4496f01a512aafd9e5)
    assert ec.point_mul(ec.N - 1) == ec.point_neg(ec.G) and ec.point_mul(ec.N) is None
    assert ec.point_add(ec.G, ec.point_neg(ec.G)) is None and ec.point_add(ec.G, ec.G) == ec.point_mul(2)
    n += 3
    # --- BIP32 vectors 1-3
    for seed, chains in BIP32_VECTORS:
        master = RefHDNode.from_seed(H(seed))
        for path, xpub, xprv in chains:
            node = master.derive(path)
            assert node.ser_public(XPUB) == xpub and node.ser_private(XPRV) == xprv, path
            assert master.derive('M' + path[1:]).ser_public(XPUB) == xpub
            ver, back = parse_xkey(xprv)
            assert ver == XPRV and back == node
            ver, back = parse_xkey(xpub)
            assert ver == XPUB and back == node.neuter()
            n += 1
        # public-only derivation must agree with private derivation over trailing non-hardened steps
        for path, xpub, _ in chains:
            steps = path.split('/')[1:]
            cut = len(steps)
            while cut > 0 and not steps[cut - 1].endswith("'"):
                cut -= 1
            if cut < len(steps):
                parent = master.derive('/'.join(['m'] + steps[:cut])).neuter()
                assert parent.derive('/'.join(steps[cut:])).ser_public(XPUB) == xpub
                n += 1
    m = RefHDNode.from_seed(H(BIP32_VECTORS[0][0]))
    assert m.derive("m/0h/1/2H") == m.derive("m/0'/1/2'") == m.derive("0'").derive("1/2'")
    assert raises(m.neuter().ckd, 2**31) and raises(m.neuter().derive, "m/0") and raises(m.derive, 'm/0/')
    assert raises(m.derive, 'm/-1') and raises(m.derive, 'm/2147483648') and raises(m.derive, 'm/x')
    # BIP32 vector 5 (invalid keys): pubkey version / prvkey mismatch, bad prefix, zero depth w/ fingerprint ...
    for bad in ('xpub661MyMwAqRbcEYS8w7XLSVeEsBXy79zSzH1J8vCdxAZningWLdN3zgtU6LBpB85b3D2yc8sfvZU521AAwdZafEz7mnzBBsz4wKY5fTtTQBm',
                'xprv9s21ZrQH143K24Mfq5zL5MhWK9hUhhGbd45hLXo2Pq2oqzMMo63oStZzFGTQQD3dC4H2D5GBj7vWvSQaaBv5cxi9gafk7NF3pnBju6dwKvH',
                'xpub661MyMwAqRbcEYS8w7XLSVeEsBXy79zSzH1J8vCdxAZningWLdN3zgtU6Txnt3siSujt9RCVYsx4qHZGc62TG4McvMGcAUjeuwZdduYEvFn',
                'xprv9s21ZrQH143K24Mfq5zL5MhWK9hUhhGbd45hLXo2Pq2oqzMMo63oStZzFGpWnsj83BHtEy5Zt8CcDr1UiRXuWCmTQLxEK9vbz5gPstX92JQ'):
        assert raises(parse_xkey, bad), bad
        n += 1
    # --- base58check / WIF / addresses (Bitcoin wiki + BIP173 examples)
    g_c, g_u = ec.pub_from_priv(1, True), ec.pub_from_priv(1, False)
    assert g_c.hex() == '0279be667ef9dcbbac55a06295ce870b07029bfcdb2dce28d959f2815b16f81798'
    assert codec.p2pkh_address(g_c, 'bitcoin') == '1BgGZ9tcN4rm9KBzDn7KprQz87SZ26SAMH'
    assert codec.p2pkh_address(g_u, 'bitcoin') == '1EHNa6Q4Jz2uvNExL497mE43ikXhwF6kZm'
    assert codec.p2wpkh_address(g_c, 'bitcoin') == 'bc1qw508d6qejxtdg4y5r3zarvary0c5xw7kv8f3t4'
    assert codec.p2wpkh_address(g_c, 'testnet') == 'tb1qw508d6qejxtdg4y5r3zarvary0c5xw7kxpjzsx'
    assert codec.p2wsh_address(sc.p2pk_script(g_c), 'testnet') == \
        'tb1qrp33g0q5c5txsp9arysrx4k6zdkfs4nce4xj0gdcccefvpysxf3q0sl5k7'
    assert codec.p2wsh_address(sc.p2pk_script(g_c), 'bitcoin') == \
        'bc1qrp33g0q5c5txsp9arysrx4k6zdkfs4nce4xj0gdcccefvpysxf3qccfmv3'
    assert codec.wif_encode(1, True, b'\x80') == 'KwDiBf89QgGbjEhKnhXJuH7LrciVrZi3qYjgd9M7rFU73sVHnoWn'
    assert codec.wif_encode(1, False, b'\x80') == '5HpHagT65TZzG1PH3CSu63k8DbpvD8s5ip4nEB3kEsreAnchuDf'
    wiki = 0x0C28FCA386C7A227600B2FE50B7CAE11EC86D3BF1FBE471BE89827E19D72AA1D
    assert codec.wif_encode(wiki, False, b'\x80') == '5HueCGU8rMjxEXxiPuD5BDku4MkFqeZyd4dZ1jvhTVqvbTLvyTJ'
    assert codec.wif_decode('5HueCGU8rMjxEXxiPuD5BDku4MkFqeZyd4dZ1jvhTVqvbTLvyTJ') == (b'\x80', wiki, False)
    assert codec.wif_decode('KwDiBf89QgGbjEhKnhXJuH7LrciVrZi3qYjgd9M7rFU73sVHnoWn') == (b'\x80', 1, True)
    assert codec.b58check_decode('1BgGZ9tcN4rm9KBzDn7KprQz87SZ26SAMH') == b'\x00' + hash160(g_c)
    assert raises(codec.b58check_decode, '1BgGZ9tcN4rm9KBzDn7KprQz87SZ26SAMJ')
    assert raises(codec.b58decode, '1BgGZ9tcN4rm9KBzDn7KprQz87SZ26SAM0')
    assert codec.b58encode(b'\x00\x00\x01') == '112' and codec.b58decode('112') == b'\x00\x00\x01'
    assert codec.address_to_script('1BgGZ9tcN4rm9KBzDn7KprQz87SZ26SAMH', 'bitcoin') == sc.p2pkh_script(hash160(g_c))
    assert raises(codec.address_to_script, '1BgGZ9tcN4rm9KBzDn7KprQz87SZ26SAMH', 'testnet')
    assert raises(codec.address_to_script, 'bc1qw508d6qejxtdg4y5r3zarvary0c5xw7kv8f3t4', 'testnet')
    # BIP16 example-style roundtrip and BIP49 test vector (testnet P2SH-P2WPKH)
    bip49 = RefHDNode.from_seed(H(  # mnemonic 'abandon x11 about' seed (BIP39, empty passphrase)
        '5eb00bbddcf069084889a8ab9155568165f5c453ccb85e70811aaed6f6da5fc19a5ac40b389cd370d086206dec8aa6c43daea6690f20'
        'ad3d8d48b2d2ce9e38e4'))
    k = bip49.derive("m/49'/1'/0'/0/0")
    assert codec.p2sh_p2wpkh_address(k.pub, 'testnet') == '2Mww8dCYPUpKHofjgcXcBCEGmniw9CoaiD2'
    k = bip49.derive("m/84'/0'/0'/0/0")  # BIP84 test vector
    assert codec.p2wpkh_address(k.pub, 'bitcoin') == 'bc1qcr8te4kr609gcawutmrza0j4xv80jy8z306fyu'
    assert bip49.derive("m/84'/0'/0'").ser_public(codec.NETWORKS['bitcoin']['xkeys']['p2wpkh'][0]) == \
        'zpub6rFR7y4Q2AijBEqTUquhVz398htDFrtymD9xYYfG1m4wAcvPhXNfE3EfH1r1ADqtfSdVCToUG868RvUUkgDKf31mGDtKsAYz2oz2AGutZYs'
    n += 24
    # --- BIP173 / BIP350
    for addr, spk in BECH32_VALID:
        net = 'bitcoin' if addr.lower().startswith('bc') else 'testnet'
        assert codec.address_to_script(addr, net).hex() == spk, addr
        assert codec.script_to_address(H(spk), net) == addr.lower(), addr
        hrp, ver, prog, spec = codec.bech32_decode(addr)
        assert codec.bech32_encode(hrp, ver, prog) == addr.lower() and spec == ('bech32' if ver == 0 else 'bech32m')
        n += 1
    for addr in BECH32_INVALID:
        assert raises(codec.address_to_script, addr, 'bitcoin') and raises(codec.address_to_script, addr, 'testnet'), addr
        n += 1
    for hrp, ver, ln in (('bc', 0, 21), ('bc', 17, 32), ('bc', 1, 1), ('bc', 16, 41)):
        assert raises(codec.bech32_encode, hrp, ver, bytes(ln))
    return n


def test_bip143():
    """BIP143 'Native P2WPKH' and 'P2SH-P2WPKH' examples: sighash, published signatures, full verification."""
    # native P2WPKH (input 0 is P2PK signed with the legacy algorithm, input 1 is P2WPKH)
    unsigned = H('0100000002fff7f7881a8099afa6940d42d1e7f6362bec38171ea3edf433541db4e4ad969f0000000000eeffffffef51e1b8'
                 '04cc89d182d279655c3aa89e815b1b309fe287d9b2b55d57b90ec68a0100000000ffffffff02202cb206000000001976a914'
                 '8280b37df378db99f66f85c95a783a76ac7a6d5988ac9093510d000000001976a9143bde42dbee7e4dbe6a21b2d50ce2f016'
                 '7faa815988ac11000000')
    tx = parse_tx(unsigned)
    assert tx.serialize() == unsigned and not tx.segwit
    spk0 = H('2103c9f4836b9a4f77fc0d81f7bcb01b7f1b35916864b9476c241ce9fc198bd25432ac')
    k0 = 0xbbc27228ddcb9209d7fd6f36b02f7dfa6252af40bb2f1cbc7a557da8027ff866
    k1 = 0x619c335025c7f4012e556c2a58b2506e30b8511b53ade95ea316fd8c3286feb9
    pub1 = H('025476c2e83188368da1ff3e292e7acafcdb3566bb0ad253f62fc70f07aeee6357')
    assert ec.pub_from_priv(k1) == pub1 and sc.classify(spk0)['pubkey'] == ec.pub_from_priv(k0)
    spk1 = sc.p2wpkh_script(hash160(pub1))
    digest = sh.bip143_sighash(tx, 1, sc.p2pkh_script(hash160(pub1)), 600000000, 1)
    assert digest.hex() == 'c37af31116d1b27caf68aae9e3ac82f1477929014d5b917657d0eb49478cb670'
    sig1 = H('304402203609e17b84f6a7d30c80bfa610b5b4542f32a8a0d5447a12fb1366d7f01cc44a0220573a954c4518331561406f90300e'
             '8f3358f51928d43c212a8caed02de67eebee')
    sig0 = H('30450221008b9d1dc26ba6a9cb62127b02742fa9d754cd3bebf337f7a55d114c8e5cdd30be022040529b194ba3f9281a99f2b1c0'
             'a19c0489bc22ede944ccf4ecbab4cc618ef3ed')
    assert ec.ecdsa_verify(pub1, int.from_bytes(digest, 'big'), *ec.parse_der(sig1))
    rfc = ec.ser_der(*ec.ecdsa_sign(k1, int.from_bytes(digest, 'big'))) == sig1  # BIP sigs are RFC6979 (informative)
    tx.vin[0].script_sig = sc.push(sig0 + b'\x01')
    tx.vin[1].witness = [sig1 + b'\x01', pub1]
    signed = tx.serialize()
    assert signed.hex().startswith('01000000000102fff7f788') and parse_tx(signed).segwit
    assert parse_tx(signed).serialize() == signed and tx.serialize(False) != signed and tx.txid() != tx.wtxid()
    v0, v1 = verify_input(tx, 0, spk0, 625000000), verify_input(tx, 1, spk1, 600000000)
    assert v0.ok and v0.kind == 'p2pk' and v1.ok and v1.kind == 'p2wpkh', (v0, v1)
    assert v1.digest_hex == digest.hex()
    assert not verify_input(tx, 1, spk1, 600000001).ok
    pv = {(tx.vin[0].prev_txid_hex(), 0): (spk0, 625000000), (tx.vin[1].prev_txid_hex(), 1): (spk1, 600000000)}
    tv = verify_tx(tx, pv)
    assert tv.ok and tv.fee == 1225000000 - 112340000 - 223450000, tv
    # P2SH-P2WPKH
    unsigned = H('0100000001db6b1b20aa0fd7b23880be2ecbd4a98130974cf4748fb66092ac4d3ceb1a54770100000000feffffff02b8b4eb0b'
                 '000000001976a914a457b684d7f0d539a46a45bbc043f35b59d0d96388ac0008af2f000000001976a914fd270b1ee6abcaea'
                 '97fea7ad0402e8bd8ad6d77c88ac92040000')
    tx = parse_tx(unsigned)
    spk = H('a9144733f37cf4db86fbc2efed2500b4f4e49f31202387')
    k = 0xeb696a065ef48a2192da5b28b694f87544b30fae8327c4510137a922f32c6dcf
    pub = H('03ad1d8e89212f0b92c74d23bb710c00662ad1470198ac48c43f7d6f93a2a26873')
    redeem = H('001479091972186c449eb1ded22b78e40d009bdf0089')
    assert ec.pub_from_priv(k) == pub and sc.p2wpkh_script(hash160(pub)) == redeem
    assert sc.p2sh_script(hash160(redeem)) == spk
    digest = sh.bip143_sighash(tx, 0, sc.p2pkh_script(hash160(pub)), 1000000000, 1)
    assert digest.hex() == '64f3b0f4dd2bb3aa1ce8566d220cc74dda9df97d8490cc81d89d735c92e59fb6'
    sig = H('3044022047ac8e878352d3ebbde1c94ce3a10d057c24175747116f8288e5d794d12d482f0220217f36a485cae903c713331d877c1f'
            '64677e3622ad4010726870540656fe9dcb')
    tx.vin[0].script_sig = sc.push(redeem)
    tx.vin[0].witness = [sig + b'\x01', pub]
    v = verify_input(tx, 0, spk, 1000000000)
    assert v.ok and v.kind == 'p2sh-p2wpkh' and v.script_hash_ok, v
    assert not verify_input(tx, 0, spk, 999999999).ok
    # Native P2WSH example (OP_CODESEPARATOR, SIGHASH_SINGLE): both published sighashes
    tx = parse_tx(H('0100000002fe3dc9208094f3ffd12645477b3dc56f60ec4fa8e6f5d67c565d1c6b9216b36e0000000000ffffffff0815cf'
                    '020f013ed6cf91d29f4202e8a58726b1ac6c79da47c23d1bee0a6925f80000000000ffffffff0100f2052a010000001976'
                    'a914a30741f8145e5acadf23f751864167f32e0963f788ac00000000'))
    ws = H('21026dccc749adc2a9d0d89497ac511f760f45c47dc5ed9cf352a58ac706453880aeadab210255a9626aebf5e29c0e6538428ba0d1'
           'dcf6ca98ffdf086aa8ced5e0d0215ea465ac')
    assert sha256(ws).hex() == '5d1b56b63d714eebe542309525f484b7e9d6f686b3781b6f61ef925d66d6f6a0'
    assert sh.bip143_sighash(tx, 1, ws, 4900000000, 3).hex() == \
        '82dde6e4f1e94d02c2b7ad03d2115d691f48d064e9d52f58194a6637e4194391'
    assert sh.bip143_sighash(tx, 1, ws[ws.index(b'\xab') + 1:], 4900000000, 3).hex() == \
        'fef7bd749cce710c5c052bd796df1af0d935e59cea63736268bcbe2d2134fc47'
    # P2SH-P2WSH 6-of-6 example: one published sighash per hashtype
    tx = parse_tx(H('010000000136641869ca081e70f394c6948e8af409e18b619df2ed74aa106c1ca29787b96e0100000000ffffffff0200e9'
                    'a435000000001976a914389ffce9cd9ae88dcc0631e88a821ffdbe9bfe2688acc0832f05000000001976a9147480a33f95'
                    '0689af511e6e84c138dbbd3c3ee41588ac00000000'))
    ws = H('56210307b8ae49ac90a048e9b53357a2354b3334e9c8bee813ecb98e99a7e07e8c3ba32103b28f0c28bfab54554ae8c658ac5c3e0c'
           'e6e79ad336331f78c428dd43eea8449b21034b8113d703413d57761b8b9781957b8c0ac1dfe69f492580ca4195f50376ba4a210334'
           '00f6afecb833092a9a21cfdf1ed1376e58c5d1f47de74683123987e967a8f42103a6d48b1131e94ba04d9737d61acdaa1322008af9'
           '602b3b14862c07a1789aac162102d8b661b0b3302ee2f162b09e07a55ad5dfbe673a9f01d9f0c19617681024306b56ae')
    assert sc.parse_multisig(ws)[0] == 6 and len(sc.parse_multisig(ws)[1]) == 6
    for ht, digest in ((0x01, '185c0be5263dce5b4bb50a047973c1b6272bfbd0103a89444597dc40b248ee7c'),
                       (0x02, 'e9733bc60ea13c95c6527066bb975a2ff29a925e80aa14c213f686cbae5d2f36'),
                       (0x03, '1e1f1c303dc025bd664acb72e583e933fae4cff9148bf78c157d1e8f78530aea'),
                       (0x81, '2a67f03e63a6a422125878b40b82da593be8d4efaafe88ee528af6e5a9955c6e'),
                       (0x82, '781ba15f3779d5542ce8ecb5c18716733a5ee42a6f51488ec96154934e2c890a'),
                       (0x83, '511e8e52ed574121fc1b654970395502128263f62662e076dc6baf05c2e6a99b')):
        assert sh.bip143_sighash(tx, 0, ws, 987654321, ht).hex() == digest, hex(ht)
    return {'bip143_examples': 4, 'bip143_published_sighashes': 10, 'bip143_sigs_match_rfc6979': int(rfc)}


# ---------------------------------------------------------------- (c) self-consistency
def sign(tx, idx, priv, script_code, amount=None, hashtype=1) -> bytes:
    """DER signature + hashtype byte; amount=None selects the legacy algorithm."""
    if amount is None:
        d = sh.legacy_sighash(tx, idx, script_code, hashtype)
    else:
        d = sh.bip143_sighash(tx, idx, script_code, amount, hashtype)
    return ec.ser_der(*ec.ecdsa_sign(priv, int.from_bytes(d, 'big'))) + bytes([hashtype])


def _spend(spk, n_in=2, n_out=2):
    vin = [RefIn(sha256(b'prev%d' % i), i, b'', 0xfffffffd - i, []) for i in range(n_in)]
    vout = [RefOut(40000 + i, sc.p2pkh_script(hash160(b'out%d' % i))) for i in range(n_out)]
    return RefTx(2, vin, vout, 101, False)


def test_selfconsistency():
    n = 0
    privs = [int.from_bytes(sha256(b'key%d' % i), 'big') % ec.N for i in range(3)]
    pubs = [ec.pub_from_priv(p) for p in privs]
    AMT = 100000
    for i in range(20):  # sign / verify / tamper
        d, z = int.from_bytes(sha256(b'd%d' % i), 'big') % ec.N, int.from_bytes(sha256(b'z%d' % i), 'big')
        r, s = ec.ecdsa_sign(d, z)
        for comp in (True, False):
            pub = ec.pub_from_priv(d, comp)
            assert ec.ecdsa_verify(pub, z, r, s) and ec.is_low_s(s)
            assert ec.ecdsa_verify(pub, z, r, ec.N - s) and not ec.is_low_s(ec.N - s)
            assert not ec.ecdsa_verify(pub, z + 1, r, s) and not ec.ecdsa_verify(pub, z, r, s + 1)
            assert ec.parse_pubkey(pub) == ec.point_mul(d) and ec.ser_pubkey(ec.point_mul(d), comp) == pub
        assert ec.parse_der(ec.ser_der(r, s)) == (r, s) == ec.parse_der_lax(ec.ser_der(r, s))
        n += 1
    der = ec.ser_der(*ec.ecdsa_sign(5, 7))
    for bad in (der + b'\x00', der[:-1], b'\x31' + der[1:], der[:3] + bytes([der[3] + 1]) + b'\x00' + der[4:],
                b'\x30\x06\x02\x01\x80\x02\x01\x01', b'\x30\x07\x02\x02\x00\x01\x02\x01\x01', b''):
        assert raises(ec.parse_der, bad), bad.hex()
    assert ec.parse_der_lax(b'\x30\x07\x02\x02\x00\x01\x02\x01\x01' + b'junk') == (1, 1)
    for bad in (b'\x02' + bytes(32), b'\x04' + bytes(64), b'\x05' + pubs[0][1:], pubs[0][:-1], b'',
                b'\x02' + (ec.P).to_bytes(32, 'big'), b'\x02' + (5).to_bytes(32, 'big')):
        assert raises(ec.parse_pubkey, bad), bad.hex()

    def expect(v, ok, **kw):
        assert v.ok is ok, v
        for k, val in kw.items():
            assert getattr(v, k) == val, (k, v)
        return 1

    # ---- single-sig kinds, every hashtype
    for ht in (1, 2, 3, 0x81, 0x82, 0x83):
        for idx in (0, 1):
            # p2pkh (compressed and uncompressed), p2pk
            for comp in (True, False):
                pub = ec.pub_from_priv(privs[0], comp)
                spk = sc.p2pkh_script(hash160(pub))
                tx = _spend(spk)
                tx.vin[idx].script_sig = sc.push(sign(tx, idx, privs[0], spk, None, ht)) + sc.push(pub)
                n += expect(verify_input(tx, idx, spk, 0), True, kind='p2pkh', hashtypes=[ht], m=1, n=1)
                spk = sc.p2pk_script(pub)
                tx = _spend(spk)
                tx.vin[idx].script_sig = sc.push(sign(tx, idx, privs[0], spk, None, ht))
                n += expect(verify_input(tx, idx, spk, 0), True, kind='p2pk')
            # p2wpkh and p2sh-p2wpkh
            h = hash160(pubs[0])
            tx = _spend(None)
            tx.vin[idx].witness = [sign(tx, idx, privs[0], sc.p2pkh_script(h), AMT, ht), pubs[0]]
            n += expect(verify_input(tx, idx, sc.p2wpkh_script(h), AMT), True, kind='p2wpkh', script_hash_ok=True)
            n += expect(verify_input(tx, idx, sc.p2wpkh_script(h), AMT + 1), False, kind='p2wpkh')
            tx.vin[idx].script_sig = sc.push(sc.p2wpkh_script(h))
            spk = sc.p2sh_script(hash160(sc.p2wpkh_script(h)))
            n += expect(verify_input(tx, idx, spk, AMT), True, kind='p2sh-p2wpkh')
            n += expect(verify_input(tx, idx, sc.p2wpkh_script(h), AMT), False, reason='scriptsig-not-empty')
            tx.vout[idx].value += 1  # tampered output: must break ALL and SINGLE, not NONE
            n += expect(verify_input(tx, idx, spk, AMT), (ht & 0x1f) == 2)
            tx.vout[idx].value -= 1
            tx.vin[1 - idx].sequence ^= 1  # other input's sequence: committed only by plain ALL
            n += expect(verify_input(tx, idx, spk, AMT), ht != 1)
    # legacy sighash: differential check against the original "modify a copy of the tx" formulation
    def legacy_by_copy(tx, idx, code, ht):
        base = ht & 0x1f
        if base == 3 and idx >= len(tx.vout):
            return sh.ONE
        vin = [RefIn(i.prev_txid, i.vout, code if k == idx else b'',
                     i.sequence if k == idx or base not in (2, 3) else 0, []) for k, i in enumerate(tx.vin)]
        vout = list(tx.vout)
        if base == 2:
            vout = []
        elif base == 3:
            vout = [RefOut(-1, b'')] * idx + [tx.vout[idx]]
        if ht & 0x80:
            vin = [vin[idx]]
        return sha256(sha256(RefTx(tx.version, vin, vout, tx.locktime).serialize(False) + ht.to_bytes(4, 'little')))
    for n_in, n_out in ((1, 1), (3, 2), (2, 3), (3, 3)):
        tx = _spend(None, n_in, n_out)
        for idx in range(n_in):
            for ht in (0, 1, 2, 3, 4, 0x41, 0x80, 0x81, 0x82, 0x83, 0xc3, 0xff):
                assert sh.legacy_sighash(tx, idx, b'\x76\xa9\x51', ht) == legacy_by_copy(tx, idx, b'\x76\xa9\x51', ht)
                n += 1
    # SIGHASH_SINGLE without matching output: legacy digest is 1, BIP143 hashes zeros
    tx = _spend(None, n_in=2, n_out=1)
    assert sh.legacy_sighash(tx, 1, b'\x51', 3) == sh.ONE and sh.legacy_sighash(tx, 0, b'\x51', 3) != sh.ONE
    assert sh.legacy_sighash(tx, 0, b'\x51\xab\x01\xab\xac', 1) == sh.legacy_sighash(tx, 0, b'\x51\x01\xab\xac', 1)

    # ---- 2-of-3 multisig in its four wrappings
    ms = sc.multisig_script(2, pubs)
    assert sc.parse_multisig(ms) == (2, pubs) and sc.classify(ms)['type'] == 'multisig'
    wraps = {
        'bare-multisig': (ms, False, None),
        'p2sh-multisig': (sc.p2sh_script(hash160(ms)), False, ms),
        'p2wsh-multisig': (sc.p2wsh_script(sha256(ms)), True, None),
        'p2sh-p2wsh-multisig': (sc.p2sh_script(hash160(sc.p2wsh_script(sha256(ms)))), True, sc.p2wsh_script(sha256(ms))),
    }
    for kind, (spk, wit, redeem) in wraps.items():
        for ht in (1, 0x83):
            def build(signers, dummy=b'', idx=1, amount=AMT, tamper=False):
                tx = _spend(None)
                sigs = [sign(tx, idx, privs[k], ms, AMT if wit else None, ht) if k is not None else b'' for k in signers]
                elems = ([dummy] if dummy is not None else []) + sigs
                if wit:
                    tx.vin[idx].witness = elems + [ms]
                    tx.vin[idx].script_sig = sc.push(redeem) if redeem else b''
                else:
                    tx.vin[idx].script_sig = b''.join(sc.push(e) for e in elems) + (sc.push(redeem) if redeem else b'')
                if tamper:
                    tx.vout[idx].value += 1
                return verify_input(tx, idx, spk, amount)
            for signers in ((0, 1), (0, 2), (1, 2)):
                n += expect(build(signers), True, kind=kind, m=2, n=3, n_sigs_present=2, n_valid_sigs_distinct_keys=2,
                            ordered_ok=True, script_hash_ok=True, hashtypes=[ht, ht], reason='ok')
            n += expect(build((0,)), False, n_sigs_present=1, n_valid_sigs_distinct_keys=1, ordered_ok=False)
            n += expect(build((0, None)), False, n_sigs_present=1, n_valid_sigs_distinct_keys=1)
            n += expect(build((2, 0)), False, n_valid_sigs_distinct_keys=2, ordered_ok=False, reason='sig-order')
            n += expect(build((0, 0)), False, n_sigs_present=2, n_valid_sigs_distinct_keys=1, ordered_ok=False)
            n += expect(build((0, 1, 2)), False, n_valid_sigs_distinct_keys=3, ordered_ok=False, reason='wrong-sig-count')
            n += expect(build((0, 1), dummy=b'\x01'), False, n_valid_sigs_distinct_keys=2, ordered_ok=False)
            n += expect(build((0, 1), dummy=None), False, n_valid_sigs_distinct_keys=2, ordered_ok=False)
            n += expect(build((0, 1), tamper=True), False, n_valid_sigs_distinct_keys=0)
            if wit:
                n += expect(build((0, 1), amount=AMT - 1), False, n_valid_sigs_distinct_keys=0, script_hash_ok=True)
    # wrong script hash / wrong scriptSig push / unexpected witness / high-S / strictness
    tx = _spend(None)
    tx.vin[0].script_sig = b'\x00' + sc.push(sign(tx, 0, privs[0], ms)) + sc.push(sign(tx, 0, privs[1], ms)) + sc.push(ms)
    good = sc.p2sh_script(hash160(ms))
    n += expect(verify_input(tx, 0, good, 0), True)
    n += expect(verify_input(tx, 0, sc.p2sh_script(hash160(ms + b'\x61')), 0), False, script_hash_ok=False,
                n_valid_sigs_distinct_keys=2, ordered_ok=True, reason='script-hash-mismatch')
    tx.vin[0].witness = [b'\x01']
    n += expect(verify_input(tx, 0, good, 0), False, reason='witness-unexpected')
    tx.vin[0].witness = []
    tv = verify_tx(tx, {(tx.vin[0].prev_txid_hex(), 0): (good, 90000), (tx.vin[1].prev_txid_hex(), 1): (good, 1)})
    assert not tv.ok and tv.reason.startswith('input-1') and tv.inputs[0].ok and tv.fee == 90001 - 80001
    assert verify_tx(tx, {(tx.vin[0].prev_txid_hex(), 0): (good, 90000)}).reason == 'missing-prevout'
    one = RefTx(1, [tx.vin[0]], tx.vout, 0)
    one.vin[0].script_sig = b'\x00' + b''.join(sc.push(sign(one, 0, privs[k], ms)) for k in (1, 2)) + sc.push(ms)
    pv = {(one.vin[0].prev_txid_hex(), 0): (good, 80001)}
    assert verify_tx(one, pv).ok and verify_tx(one, pv).fee == 0
    assert verify_tx(one, {(one.vin[0].prev_txid_hex(), 0): (good, 80000)}).reason == 'inputs-less-than-outputs'
    assert verify_tx(RefTx(1, [one.vin[0]] * 2, one.vout, 0), pv).reason == 'duplicate-inputs'
    assert verify_tx(RefTx(1, [], one.vout, 0), pv).reason == 'no-inputs'
    assert verify_tx(RefTx(1, one.vin, [], 0), pv).reason == 'no-outputs'
    assert not verify_tx(RefTx(1, one.vin, [RefOut(-1, b'')], 0), pv).ok
    assert not verify_tx(RefTx(1, one.vin, [RefOut(21 * 10**14 + 1, b'')], 0), pv).ok
    n += 8
    h = hash160(pubs[0])
    spk = sc.p2pkh_script(h)
    tx = _spend(None)
    r, s = ec.ecdsa_sign(privs[0], int.from_bytes(sh.legacy_sighash(tx, 0, spk, 1), 'big'))
    tx.vin[0].script_sig = sc.push(ec.ser_der(r, ec.N - s) + b'\x01') + sc.push(pubs[0])
    n += expect(verify_input(tx, 0, spk, 0), True)
    n += expect(verify_input(tx, 0, spk, 0, require_low_s=True), False, reason='high-s')
    lax = b'\x30\x81' + ec.ser_der(r, s)[1:]  # long-form sequence length: valid only pre-BIP66
    tx.vin[0].script_sig = sc.push(lax + b'\x01') + sc.push(pubs[0])
    n += expect(verify_input(tx, 0, spk, 0), False, reason='sig-der')
    n += expect(verify_input(tx, 0, spk, 0, strict_der=False), True)
    upub = ec.pub_from_priv(privs[0], False)  # uncompressed key in segwit: rejected by this reference
    tx = _spend(None)
    tx.vin[0].witness = [sign(tx, 0, privs[0], sc.p2pkh_script(hash160(upub)), AMT), upub]
    n += expect(verify_input(tx, 0, sc.p2wpkh_script(hash160(upub)), AMT), False, reason='segwit-uncompressed-pubkey')
    n += expect(verify_input(tx, 0, sc.p2tr_script(bytes(32)), AMT), False, kind='unsupported')
    n += expect(verify_input(tx, 0, sc.p2wsh_script(sha256(b'\x51')), AMT), False, kind='unsupported')
    # codec / script odds and ends
    for raw in (b'', b'\x01', bytes(75), bytes(76), bytes(255), bytes(256), bytes(65536), b'\x81', b'\x10', b'\x11'):
        assert sc.parse_script(sc.push(raw)) in ([raw], [0x50 + raw[0]] if len(raw) == 1 else None, [0x4f])
        assert scriptsig_stack(sc.push(raw)) == [raw]
    assert raises(sc.parse_script, b'\x05abcd') and raises(sc.parse_script, b'\x4c\x05abcd') and raises(sc.parse_script, b'\x4d\x01')
    assert sc.parse_multisig(ms[:-1]) is None and sc.parse_multisig(b'\x54' + ms[1:]) is None
    assert sc.parse_multisig(ms.replace(b'\x21' + pubs[0], b'\x4c\x21' + pubs[0])) is None
    big = sc.multisig_script(17, [pubs[0]] * 20)
    assert sc.parse_multisig(big) == (17, [pubs[0]] * 20)
    assert sc.classify(b'\x6a\x04test')['type'] == 'nulldata' and sc.classify(b'\x6a\x05test')['type'] == 'unknown'
    for v in (0, 0xfc, 0xfd, 0xffff, 0x10000, 0xffffffff, 0x100000000, 2**64 - 1):
        assert read_varint(io.BytesIO(ser_varint(v))) == v
    assert raises(read_varint, io.BytesIO(b'\xfd\x01\x00')) and raises(read_varint, io.BytesIO(b'\xfe\x01'))
    raw = _spend(None).serialize()
    assert raises(parse_tx, raw + b'\x00') and all(raises(parse_tx, raw[:i]) for i in range(len(raw)))
    for net in codec.NETWORKS:
        for spk in (sc.p2pkh_script(h), sc.p2sh_script(h), sc.p2wpkh_script(h), sc.p2wsh_script(sha256(h)), sc.p2tr_script(sha256(h))):
            addr = codec.script_to_address(spk, net)
            if addr is None:
                assert net == 'dogecoin' and spk[0] in (0, 0x51)
                continue
            assert codec.address_to_script(addr, net) == spk
            others = [o for o in codec.NETWORKS if not raises(codec.address_to_script, addr, o)]
            assert set(others) <= {net, 'testnet', 'litecoin_testnet'}, (addr, others)  # shared 0x6F prefix
        w = codec.wif_encode(privs[0], True, codec.NETWORKS[net]['wif'])
        assert codec.wif_decode(w) == (codec.NETWORKS[net]['wif'], privs[0], True)
    return n


# ---------------------------------------------------------------- (d) import scan + network constants cross-check
def test_imports():
    files = sorted(f for f in os.listdir(HERE) if f.endswith('.py'))
    for f in files:
        src = open(os.path.join(HERE, f)).read()
        for node in ast.walk(ast.parse(src)):
            mods = []
            if isinstance(node, ast.Import):
                mods = [a.name for a in node.names]
            elif isinstance(node, ast.ImportFrom) and node.level == 0:
                mods = [node.module]
            for m in mods:
                top = m.split('.')[0]
                assert top != 'bitcoinlib' and top in sys.stdlib_module_names, '%s imports %s' % (f, m)
        if f != 'selftest.py':  # no dynamic imports that the AST scan would miss
            assert '__import__' not in src and 'importlib' not in src, f
    return len(files)


def test_networks_json():
    """Cross-check NETWORKS against bitcoinlib's networks.json data file; differences must be in KNOWN_DIFFS."""
    data = json.load(open(NETWORKS_JSON))
    fam_map = {('legacy', 'p2pkh'): 'legacy', ('legacy', 'p2sh'): 'legacy', ('p2sh-segwit', 'p2sh_p2wpkh'): 'p2sh_p2wpkh',
               ('p2sh-segwit', 'p2sh_p2wsh'): 'p2sh_p2wsh', ('segwit', 'p2wpkh'): 'p2wpkh', ('segwit', 'p2wsh'): 'p2wsh'}
    diffs, checked = [], 0
    for net, ref in codec.NETWORKS.items():
        d = data[net]
        theirs = {'p2pkh': H(d['prefix_address']), 'p2sh': H(d['prefix_address_p2sh']), 'bech32': d['prefix_bech32'],
                  'wif': H(d['prefix_wif']), 'coin_type': d['bip44_cointype']}
        for hexver, _, pubpriv, _, wt, st in d['prefixes_wif']:
            fam = 'xkeys.' + fam_map[(wt, st)]
            pair = list(theirs.get(fam, (None, None)))
            pair[pubpriv == 'private'] = H(hexver)
            theirs[fam] = tuple(pair)
        ours = {k: v for k, v in ref.items() if k != 'xkeys'}
        ours.update({'xkeys.' + k: v for k, v in ref['xkeys'].items()})
        for k in sorted(set(ours) | set(theirs)):
            checked += 1
            if ours.get(k) != theirs.get(k):
                diffs.append((net, k))
                assert codec.KNOWN_DIFFS.get((net, k)) == theirs.get(k), (net, k, ours.get(k), theirs.get(k))
    assert sorted(diffs) == sorted(codec.KNOWN_DIFFS), diffs
    return {'network_fields_checked': checked, 'network_known_diffs': len(diffs)}


# ---------------------------------------------------------------- (b) real mainnet blocks
_BLOCK_CACHE = {}


def _load_block(height):
    if height not in _BLOCK_CACHE:
        with open('%s/block%d.pickle' % (REPO_TESTS, height), 'rb') as f:
            raw = pickle.load(f)
        blk = parse_block(raw)
        _BLOCK_CACHE[height] = (raw, blk, {t.txid(): t for t in blk.txs})
    return _BLOCK_CACHE[height]


def _looks_like_sig(b):
    return 9 <= len(b) <= 74 and b[0] == 0x30


def _verify_chunk(args):
    """Verify the inputs of txs[start:end] of one block. Returns (Counter, failures list)."""
    height, start, end, cap = args
    _, blk, by_txid = _load_block(height)
    strict = height >= BIP66_HEIGHT
    cnt, fails = Counter(), []
    for tx in blk.txs[start:end]:
        if tx.is_coinbase():
            continue
        for idx, inp in enumerate(tx.vin):
            cnt['inputs'] += 1
            if cap is not None and cnt['verified'] >= cap:
                cnt['skipped:cap'] += 1
                continue
            prev = by_txid.get(inp.prev_txid_hex())
            how = 'in-block'
            if prev is not None:  # previous output is in the same block: script and amount are known
                spk, value = prev.vout[inp.vout].script_pubkey, prev.vout[inp.vout].value
            elif inp.witness:
                cnt['skipped:segwit-prevout-unknown'] += 1
                continue
            else:  # legacy: rebuild the only scriptPubKey this scriptSig shape can satisfy
                how, value, spk = 'rebuilt', 0, None
                stack = scriptsig_stack(inp.script_sig)
                if stack and len(stack) == 2 and _looks_like_sig(stack[0]) and len(stack[1]) in (33, 65):
                    try:
                        ec.parse_pubkey(stack[1], True)
                        spk = sc.p2pkh_script(hash160(stack[1]))
                    except ValueError:
                        pass
                elif stack and len(stack) >= 2 and stack[0] == b'' and sc.parse_multisig(stack[-1]) \
                        and all(_looks_like_sig(s) for s in stack[1:-1]):
                    spk = sc.p2sh_script(hash160(stack[-1]))
                if spk is None:
                    cnt['skipped:legacy-shape-unrecognised'] += 1
                    continue
            v = verify_input(tx, idx, spk, value, strict_der=strict)
            if v.kind == 'unsupported':
                cnt['skipped:unsupported(%s)' % sc.classify(spk)['type']] += 1
                continue
            cnt['verified'] += 1
            cnt['verified:%s' % v.kind] += 1
            cnt['verified:%s' % how] += 1
            for ht in set(v.hashtypes):
                cnt['hashtype:0x%02x' % ht] += 1
            cnt['non-strict-der-sigs(pre-BIP66)'] += 0
            if not strict:  # informative: how many historical signatures are not BIP66-strict
                for s in (inp.witness or scriptsig_stack(inp.script_sig) or []):
                    if _looks_like_sig(s) and raises(ec.parse_der, s[:-1]):
                        cnt['non-strict-der-sigs(pre-BIP66)'] += 1
            if not v.ok:
                fails.append((height, tx.txid(), idx, v.kind, v.reason))
    return cnt, fails


def test_blocks(quick=False, verbose=False, processes=None):
    import multiprocessing as mp
    heights = (330000, 625007) if quick else BLOCKS
    cap = 25 if quick else None  # per chunk
    total, tasks = Counter(), []
    for h in heights:
        raw, blk, by_txid = _load_block(h)
        assert len(by_txid) == len(blk.txs), 'duplicate txids'
        assert merkle_root(list(by_txid)) == blk.merkle_root_hex(), 'merkle root mismatch in %d' % h
        assert blk.hash().startswith('00000000') and blk.check_pow(), blk.hash()
        assert blk.txs[0].is_coinbase() and not any(t.is_coinbase() for t in blk.txs[1:])
        assert blk.header + ser_varint(len(blk.txs)) + b''.join(t.serialize() for t in blk.txs) == raw, 'roundtrip'
        assert all(t.weight() == 3 * len(t.serialize(False)) + len(t.serialize()) and t.vsize() * 4 >= t.weight()
                   for t in blk.txs)
        wits = [t for t in blk.txs if t.has_witness()]
        assert all(t.segwit for t in wits) and all(t.txid() != t.wtxid() for t in wits)
        if wits:  # BIP141 witness commitment in the coinbase binds every wtxid
            leaves = ['00' * 32] + [t.wtxid() for t in blk.txs[1:]]
            commit = sha256(sha256(H(merkle_root(leaves))[::-1] + blk.txs[0].vin[0].witness[0]))
            assert any(o.script_pubkey[:6] == H('6a24aa21a9ed') and o.script_pubkey[6:38] == commit
                       for o in blk.txs[0].vout), 'witness commitment mismatch in %d' % h
            total['witness_commitments_ok'] += 1
        total['blocks'] += 1
        total['txs'] += len(blk.txs)
        total['segwit_txs'] += len(wits)
        step = 40
        tasks += [(h, i, min(i + step, len(blk.txs)), cap) for i in range(0, len(blk.txs), step)]
    if verbose:
        print('  blocks parsed, %d txs, %d verification chunks' % (total['txs'], len(tasks)), flush=True)
    procs = processes or min(os.cpu_count() or 1, 16)
    if procs > 1:
        with mp.get_context('fork').Pool(procs) as pool:
            results = pool.map(_verify_chunk, tasks, chunksize=1)
    else:
        results = [_verify_chunk(t) for t in tasks]
    fails = []
    for c, f in results:
        total.update(c)
        fails += f
    assert not fails, 'mainnet inputs rejected by the reference (bug in ref!): %r' % fails[:10]
    assert total['verified'] > (100 if quick else 5000), dict(total)
    return dict(total)


# ---------------------------------------------------------------- driver
def run(verbose=False, quick=False, processes=None) -> dict:
    t0 = time.time()
    counts = {}

    def stage(name, fn, *a, **kw):
        t = time.time()
        res = fn(*a, **kw)
        counts.update(res if isinstance(res, dict) else {name: res})
        if verbose:
            print('%-22s ok  (%.2fs)' % (name, time.time() - t), flush=True)

    stage('import_scan_files', test_imports)
    stage('vector_checks', test_vectors)
    stage('bip143', test_bip143)
    stage('network_json', test_networks_json)
    stage('selfconsistency_checks', test_selfconsistency)
    from . import bip38
    stage('bip38_vectors', bip38.selftest)
    stage('blocks', test_blocks, quick=quick, verbose=verbose, processes=processes)
    pub, z = ec.pub_from_priv(12345), int.from_bytes(sha256(b'timing'), 'big')
    r, s = ec.ecdsa_sign(12345, z)
    t = time.time()
    for _ in range(100):
        assert ec.ecdsa_verify(pub, z, r, s)
    counts['ms_per_ecdsa_verify'] = round((time.time() - t) * 10, 3)
    counts['seconds_total'] = round(time.time() - t0, 2)
    return counts


if __name__ == '__main__':
    res = run(verbose='-v' in sys.argv or '--verbose' in sys.argv, quick='--quick' in sys.argv)
    for k in sorted(res):
        print('%-45s %s' % (k, res[k]))
    print('SELFTEST OK')
