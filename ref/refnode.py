"""Consensus-style verification of standard-template spends (the reference "node")."""
from dataclasses import dataclass, field
from .hashes import sha256, hash160
from .secp256k1 import ecdsa_verify, parse_der, parse_der_lax, is_low_s
from .script import parse_script, parse_multisig, classify, p2pkh_script
from .sighash import legacy_sighash, bip143_sighash

MAX_MONEY = 21_000_000 * 100_000_000


@dataclass
class InputVerdict:
    ok: bool = False
    reason: str = ''
    kind: str = 'unsupported'
    m: int = 0
    n: int = 0
    n_sigs_present: int = 0
    n_valid_sigs_distinct_keys: int = 0
    ordered_ok: bool = False
    script_hash_ok: bool = False
    hashtypes: list = field(default_factory=list)
    digest_hex: str = ''


@dataclass
class TxVerdict:
    ok: bool
    reason: str
    inputs: list
    fee: int


def scriptsig_stack(script_sig: bytes):
    """Stack left by a push-only scriptSig (list of bytes), or None if not push-only / unparseable."""
    try:
        items = parse_script(script_sig)
    except ValueError:
        return None
    out = []
    for it in items:
        if isinstance(it, bytes):
            out.append(it)
        elif 0x51 <= it <= 0x60:
            out.append(bytes([it - 0x50]))
        elif it == 0x4f:
            out.append(b'\x81')
        else:
            return None
    return out


class _Checker:
    """Signature checker bound to one input, one script_code and one sighash algorithm."""

    def __init__(self, tx, idx, script_code, amount, segwit, strict_der, require_low_s, reasons):
        self.tx, self.idx, self.script_code, self.amount, self.segwit = tx, idx, script_code, amount, segwit
        self.strict_der, self.require_low_s, self.reasons = strict_der, require_low_s, reasons
        self._digests, self._cache = {}, {}

    def digest(self, hashtype: int) -> bytes:
        if hashtype not in self._digests:
            if self.segwit:
                d = bip143_sighash(self.tx, self.idx, self.script_code, self.amount, hashtype)
            else:
                d = legacy_sighash(self.tx, self.idx, self.script_code, hashtype)
            self._digests[hashtype] = d
        return self._digests[hashtype]

    def _note(self, reason):
        if reason not in self.reasons:
            self.reasons.append(reason)

    def check(self, sig: bytes, pubkey: bytes) -> bool:
        key = (sig, pubkey)
        if key not in self._cache:
            self._cache[key] = self._check(sig, pubkey)
        return self._cache[key]

    def _check(self, sig, pubkey):
        if not sig:
            return False
        try:
            r, s = (parse_der if self.strict_der else parse_der_lax)(sig[:-1])
        except ValueError:
            self._note('sig-der')
            return False
        if self.require_low_s and not is_low_s(s):
            self._note('high-s')
            return False
        if self.segwit and not (len(pubkey) == 33 and pubkey[0] in (2, 3)):
            return False
        z = int.from_bytes(self.digest(sig[-1]), 'big')
        return ecdsa_verify(pubkey, z, r, s, allow_hybrid=not self.segwit)


def _single(v, chk, sig, pubkey):
    v.m = v.n = 1
    if sig:
        v.n_sigs_present, v.hashtypes = 1, [sig[-1]]
    if chk.segwit and not (len(pubkey) == 33 and pubkey[0] in (2, 3)):
        chk._note('segwit-uncompressed-pubkey')
    valid = chk.check(sig, pubkey)
    v.n_valid_sigs_distinct_keys = int(valid)
    v.ordered_ok = valid
    if not valid and not chk.reasons:
        chk._note('sig-invalid' if sig else 'sig-missing')


def _multi(v, chk, below, m, keys):
    """`below` = stack elements under the script / before OP_CHECKMULTISIG: [dummy, sig, ...]."""
    v.m, v.n = m, len(keys)
    if chk.segwit and not all(len(k) == 33 and k[0] in (2, 3) for k in keys):
        chk._note('segwit-uncompressed-pubkey')
    dummy_ok = len(below) >= 1 and below[0] == b''
    sig_elems = below[1:] if dummy_ok else below  # without a dummy, treat everything as candidates
    present = [s for s in sig_elems if s]
    v.n_sigs_present, v.hashtypes = len(present), [s[-1] for s in present]
    used = set()
    for s in present:  # any-order matching, each key at most once
        for ki, k in enumerate(keys):
            if ki not in used and chk.check(s, k):
                used.add(ki)
                break
    v.n_valid_sigs_distinct_keys = len(used)
    if not dummy_ok:
        chk._note('dummy-missing-or-nonempty')
    elif len(sig_elems) != m or len(present) != m:
        chk._note('wrong-sig-count')
    else:  # the real OP_CHECKMULTISIG walk (direction does not change the outcome)
        isig = ikey = 0
        while isig < m and m - isig <= len(keys) - ikey:
            if chk.check(sig_elems[isig], keys[ikey]):
                isig += 1
            ikey += 1
        v.ordered_ok = isig == m
        if not v.ordered_ok and not chk.reasons:
            chk._note('sig-order' if len(used) == m else 'sig-invalid')


def verify_input(tx, idx: int, prev_script_pubkey: bytes, prev_value: int,
                 strict_der=True, require_low_s=False) -> InputVerdict:
    v, reasons = InputVerdict(), []
    inp = tx.vin[idx]
    spk = bytes(prev_script_pubkey)
    c = classify(spk)
    t = c['type']
    has_wit = len(inp.witness) > 0

    def checker(script_code, segwit):
        chk = _Checker(tx, idx, script_code, prev_value, segwit, strict_der, require_low_s, reasons)
        v.digest_hex = chk.digest(1).hex()
        return chk

    def wpkh(h160):  # shared by p2wpkh and p2sh-p2wpkh
        if len(inp.witness) != 2:
            reasons.append('bad-witness-shape')
            return False
        sig, pub = inp.witness
        ok = hash160(pub) == h160
        if not ok:
            reasons.append('pubkey-hash-mismatch')
        _single(v, checker(p2pkh_script(h160), True), sig, pub)
        return ok

    def wsh(sha, kind):  # shared by p2wsh and p2sh-p2wsh
        ms = parse_multisig(inp.witness[-1]) if inp.witness else None
        if ms is None:
            reasons.append('unsupported-witness-script' if inp.witness else 'bad-witness-shape')
            return False
        v.kind = kind
        ok = sha256(inp.witness[-1]) == sha
        if not ok:
            reasons.append('script-hash-mismatch')
        _multi(v, checker(inp.witness[-1], True), list(inp.witness[:-1]), ms[0], ms[1])
        return ok

    stack = scriptsig_stack(inp.script_sig)
    if t in ('p2pkh', 'p2pk', 'multisig', 'p2sh'):
        if stack is None:
            reasons.append('scriptsig-not-push-only')
    if t in ('p2pkh', 'p2pk', 'multisig') and has_wit:
        reasons.append('witness-unexpected')

    if t == 'p2pkh':
        v.kind = 'p2pkh'
        chk = checker(spk, False)
        if stack is not None and len(stack) == 2:
            v.script_hash_ok = hash160(stack[1]) == c['hash']
            if not v.script_hash_ok:
                reasons.append('pubkey-hash-mismatch')
            _single(v, chk, stack[0], stack[1])
        elif stack is not None:
            reasons.append('bad-scriptsig-shape')
    elif t == 'p2pk':
        v.kind = 'p2pk'
        chk = checker(spk, False)
        v.script_hash_ok = True  # nothing hashed: the key is in the output itself
        if stack is not None and len(stack) == 1:
            _single(v, chk, stack[0], c['pubkey'])
        elif stack is not None:
            reasons.append('bad-scriptsig-shape')
    elif t == 'multisig':
        v.kind = 'bare-multisig'
        chk = checker(spk, False)
        v.script_hash_ok = True
        if stack is not None:
            _multi(v, chk, stack, c['m'], c['pubkeys'])
    elif t == 'p2sh':
        if stack:
            redeem = stack[-1]
            v.script_hash_ok = hash160(redeem) == c['hash']
            rc = classify(redeem)
            # BIP141: scriptSig must be exactly one direct push of the witness program (22 or 34 bytes)
            single_push = len(redeem) < 76 and inp.script_sig == bytes([len(redeem)]) + redeem
            if rc['type'] == 'p2wpkh':
                v.kind = 'p2sh-p2wpkh'
                if not single_push:
                    reasons.append('p2sh-scriptsig-not-single-push')
                v.script_hash_ok &= wpkh(rc['hash'])
            elif rc['type'] == 'p2wsh':
                if not single_push:
                    reasons.append('p2sh-scriptsig-not-single-push')
                v.script_hash_ok &= wsh(rc['hash'], 'p2sh-p2wsh-multisig')
            elif rc['type'] == 'multisig':
                v.kind = 'p2sh-multisig'
                if has_wit:
                    reasons.append('witness-unexpected')
                _multi(v, checker(redeem, False), stack[:-1], rc['m'], rc['pubkeys'])
            else:
                reasons.append('unsupported-redeem-script')
            if v.kind != 'unsupported' and not v.script_hash_ok and 'script-hash-mismatch' not in reasons \
                    and 'pubkey-hash-mismatch' not in reasons:
                reasons.append('script-hash-mismatch')
        elif stack is not None:
            reasons.append('bad-scriptsig-shape')
    elif t == 'p2wpkh':
        v.kind = 'p2wpkh'
        if inp.script_sig:
            reasons.append('scriptsig-not-empty')
        v.script_hash_ok = wpkh(c['hash'])
    elif t == 'p2wsh':
        if inp.script_sig:
            reasons.append('scriptsig-not-empty')
        v.script_hash_ok = wsh(c['hash'], 'p2wsh-multisig')
    else:
        reasons.append('unsupported-script-type:' + t)

    v.ok = v.kind != 'unsupported' and not reasons and v.script_hash_ok and v.ordered_ok
    if not v.ok and not reasons:
        reasons.append('sig-invalid')
    v.reason = 'ok' if v.ok else '; '.join(reasons)
    return v


def verify_tx(tx, prevouts: dict) -> TxVerdict:
    """prevouts: {(txid_hex_explorer_order, vout): (script_pubkey_bytes, value_int)}."""
    def fail(reason, inputs=(), fee=0):
        return TxVerdict(False, reason, list(inputs), fee)

    if not tx.vin:
        return fail('no-inputs')
    if not tx.vout:
        return fail('no-outputs')
    total_out = 0
    for o in tx.vout:
        if not 0 <= o.value <= MAX_MONEY:
            return fail('output-value-out-of-range')
        total_out += o.value
    if total_out > MAX_MONEY:
        return fail('output-total-out-of-range')
    points = [(i.prev_txid_hex(), i.vout) for i in tx.vin]
    if len(set(points)) != len(points):
        return fail('duplicate-inputs')
    if any(p not in prevouts for p in points):
        return fail('missing-prevout')
    total_in = 0
    for p in points:
        value = prevouts[p][1]
        if not 0 <= value <= MAX_MONEY:
            return fail('input-value-out-of-range')
        total_in += value
    if total_in > MAX_MONEY:
        return fail('input-total-out-of-range')
    fee = total_in - total_out
    verdicts = [verify_input(tx, n, prevouts[p][0], prevouts[p][1]) for n, p in enumerate(points)]
    if fee < 0:
        return fail('inputs-less-than-outputs', verdicts, fee)
    for n, iv in enumerate(verdicts):
        if not iv.ok:
            return fail('input-%d: %s' % (n, iv.reason), verdicts, fee)
    return TxVerdict(True, 'ok', verdicts, fee)
