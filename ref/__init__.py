"""Independent pure-stdlib Bitcoin reference implementation used as a test oracle.

Must never import bitcoinlib or any third-party package (enforced by ref.selftest).
"""
