"""secp256k1 arithmetic, ECDSA verify/sign (RFC6979) and DER parsing. Pure Python ints.

Affine points are (x, y) tuples, the point at infinity is None.
Internally Jacobian (X, Y, Z) triples are used (curve a = 0), infinity is None.
"""
from functools import lru_cache
from .hashes import hmac_sha256

P = 2**256 - 2**32 - 977
N = 0xFFFFFFFFFFFFFFFFFFFFFFFFFFFFFFFEBAAEDCE6AF48A03BBFD25E8CD0364141
GX = 0x79BE667EF9DCBBAC55A06295CE870B07029BFCDB2DCE28D959F2815B16F81798
GY = 0x483ADA7726A3C4655DA4FBFC0E1108A8FD17B448A68554199C47D08FFB10D4B8
G = (GX, GY)


# ---------------------------------------------------------------- Jacobian core
def _jdbl(p):
    if p is None:
        return None
    X, Y, Z = p
    if Y == 0:
        return None
    YY = Y * Y % P
    S = 4 * X * YY % P
    M = 3 * X * X % P
    X3 = (M * M - 2 * S) % P
    return X3, (M * (S - X3) - 8 * YY * YY) % P, 2 * Y * Z % P


def _jadd(p, q):
    """General Jacobian + Jacobian addition."""
    if p is None:
        return q
    if q is None:
        return p
    X1, Y1, Z1 = p
    X2, Y2, Z2 = q
    Z1Z1 = Z1 * Z1 % P
    Z2Z2 = Z2 * Z2 % P
    U1 = X1 * Z2Z2 % P
    U2 = X2 * Z1Z1 % P
    S1 = Y1 * Z2 * Z2Z2 % P
    S2 = Y2 * Z1 * Z1Z1 % P
    H = (U2 - U1) % P
    R = (S2 - S1) % P
    if H == 0:
        return _jdbl(p) if R == 0 else None
    H2 = H * H % P
    H3 = H * H2 % P
    V = U1 * H2 % P
    X3 = (R * R - H3 - 2 * V) % P
    return X3, (R * (V - X3) - S1 * H3) % P, H * Z1 * Z2 % P


def _jadd_affine(p, q):
    """Jacobian p + affine q (mixed addition)."""
    if q is None:
        return p
    if p is None:
        return q[0], q[1], 1
    X1, Y1, Z1 = p
    x2, y2 = q
    Z1Z1 = Z1 * Z1 % P
    H = (x2 * Z1Z1 - X1) % P
    R = (y2 * Z1 * Z1Z1 - Y1) % P
    if H == 0:
        return _jdbl(p) if R == 0 else None
    H2 = H * H % P
    H3 = H * H2 % P
    V = X1 * H2 % P
    X3 = (R * R - H3 - 2 * V) % P
    return X3, (R * (V - X3) - Y1 * H3) % P, H * Z1 % P


def _to_affine(p):
    if p is None:
        return None
    X, Y, Z = p
    zi = pow(Z, -1, P)
    zi2 = zi * zi % P
    return X * zi2 % P, Y * zi2 * zi % P


_GT = None  # _GT[i][j] = (j+1) * 16**i * G, affine


def _g_table():
    global _GT
    if _GT is None:
        rows, base = [], (GX, GY, 1)
        for _ in range(64):
            row, acc = [], base
            for _ in range(15):
                row.append(acc)
                acc = _jadd(acc, base)
            rows.append(row)
            base = acc  # 16 * previous base
        _GT = [[_to_affine(p) for p in row] for row in rows]
    return _GT


def _mul_g(k):
    """k*G as Jacobian, fixed-base 4-bit comb (64 mixed additions, no doublings)."""
    k %= N
    t, acc, i = _g_table(), None, 0
    while k:
        d = k & 15
        if d:
            acc = _jadd_affine(acc, t[i][d - 1])
        k >>= 4
        i += 1
    return acc


def _mul(k, pt):
    """k*pt (affine pt) as Jacobian, 4-bit fixed window."""
    k %= N
    if pt is None or k == 0:
        return None
    tab = [None, (pt[0], pt[1], 1)]
    for i in range(2, 16):
        tab.append(_jadd_affine(tab[i - 1], pt))
    acc = None
    for shift in range((k.bit_length() + 3) // 4 * 4 - 4, -1, -4):
        if acc is not None:
            acc = _jdbl(_jdbl(_jdbl(_jdbl(acc))))
        d = (k >> shift) & 15
        if d:
            acc = _jadd(acc, tab[d])
    return acc


# ---------------------------------------------------------------- affine public API
def is_on_curve(pt) -> bool:
    if pt is None:
        return True
    x, y = pt
    return 0 <= x < P and 0 <= y < P and (y * y - x * x * x - 7) % P == 0


def point_add(a, b):
    ja = None if a is None else (a[0], a[1], 1)
    return _to_affine(_jadd_affine(ja, b))


def point_double(a):
    return None if a is None else _to_affine(_jdbl((a[0], a[1], 1)))


def point_neg(a):
    return None if a is None else (a[0], (-a[1]) % P)


def point_mul(k: int, pt=G):
    if pt == G:
        return _to_affine(_mul_g(k))
    return _to_affine(_mul(k, pt))


# ---------------------------------------------------------------- key encoding
def ser_pubkey(pt, compressed=True) -> bytes:
    if pt is None:
        raise ValueError('cannot serialize point at infinity')
    x, y = pt
    if compressed:
        return bytes([2 + (y & 1)]) + x.to_bytes(32, 'big')
    return b'\x04' + x.to_bytes(32, 'big') + y.to_bytes(32, 'big')


def parse_pubkey(b: bytes, allow_hybrid=False):
    """Decode a SEC1 public key (33-byte 02/03, 65-byte 04; hybrid 06/07 only if allow_hybrid) -> (x, y).
    ValueError on bad encoding / off-curve point."""
    return _parse_pubkey(bytes(b), bool(allow_hybrid))


@lru_cache(maxsize=8192)
def _parse_pubkey(b, allow_hybrid):
    if len(b) == 33 and b[0] in (2, 3):
        x = int.from_bytes(b[1:], 'big')
        if x >= P:
            raise ValueError('pubkey x out of range')
        y2 = (x * x * x + 7) % P
        y = pow(y2, (P + 1) // 4, P)
        if y * y % P != y2:
            raise ValueError('pubkey x not on curve')
        if (y & 1) != (b[0] & 1):
            y = P - y
        return x, y
    if len(b) == 65 and (b[0] == 4 or (allow_hybrid and b[0] in (6, 7))):
        x, y = int.from_bytes(b[1:33], 'big'), int.from_bytes(b[33:], 'big')
        if x >= P or y >= P or (y * y - x * x * x - 7) % P:
            raise ValueError('pubkey not on curve')
        if b[0] != 4 and (y & 1) != (b[0] & 1):
            raise ValueError('hybrid pubkey parity mismatch')
        return x, y
    raise ValueError('bad pubkey encoding')


def pub_from_priv(d: int, compressed=True) -> bytes:
    if not 1 <= d < N:
        raise ValueError('private key out of range')
    return ser_pubkey(_to_affine(_mul_g(d)), compressed)


# ---------------------------------------------------------------- ECDSA
def is_low_s(s: int) -> bool:
    return 1 <= s <= N // 2


def ecdsa_verify(pubkey: bytes, z: int, r: int, s: int, allow_hybrid=False) -> bool:
    try:
        Q = parse_pubkey(pubkey, allow_hybrid)
    except ValueError:
        return False
    if not (1 <= r < N and 1 <= s < N):
        return False
    w = pow(s, -1, N)
    R = _jadd(_mul_g(z * w % N), _mul(r * w % N, Q))
    if R is None:
        return False
    X, _, Z = R
    return X * pow(Z, -2, P) % P % N == r


def _rfc6979(d: int, z: int):
    """Yield RFC6979 nonce candidates for HMAC-SHA256, qlen = 256."""
    x, h = d.to_bytes(32, 'big'), (z % N).to_bytes(32, 'big')
    V, K = b'\x01' * 32, b'\x00' * 32
    K = hmac_sha256(K, V + b'\x00' + x + h)
    V = hmac_sha256(K, V)
    K = hmac_sha256(K, V + b'\x01' + x + h)
    V = hmac_sha256(K, V)
    while True:
        V = hmac_sha256(K, V)
        k = int.from_bytes(V, 'big')
        if 1 <= k < N:
            yield k
        K = hmac_sha256(K, V + b'\x00')
        V = hmac_sha256(K, V)


def ecdsa_sign(d: int, z: int):
    """Deterministic (RFC6979) signature of digest int z, low-S normalised -> (r, s)."""
    if not 1 <= d < N:
        raise ValueError('private key out of range')
    for k in _rfc6979(d, z):
        r = _to_affine(_mul_g(k))[0] % N
        if r == 0:
            continue
        s = pow(k, -1, N) * (z + r * d) % N
        if s == 0:
            continue
        return r, (N - s if s > N // 2 else s)


# ---------------------------------------------------------------- DER
def parse_der(sig: bytes):
    """Strict DER (BIP66) ECDSA signature, WITHOUT the sighash byte -> (r, s)."""
    n = len(sig)
    if n < 8 or n > 72:
        raise ValueError('DER: bad length')
    if sig[0] != 0x30 or sig[1] != n - 2:
        raise ValueError('DER: bad sequence header')
    if sig[2] != 0x02:
        raise ValueError('DER: R not an integer')
    lr = sig[3]
    if lr == 0 or 5 + lr >= n:
        raise ValueError('DER: bad R length')
    if sig[4 + lr] != 0x02:
        raise ValueError('DER: S not an integer')
    ls = sig[5 + lr]
    if ls == 0 or lr + ls + 6 != n:
        raise ValueError('DER: bad S length')
    rb, sb = sig[4:4 + lr], sig[6 + lr:]
    for name, v in (('R', rb), ('S', sb)):
        if v[0] & 0x80:
            raise ValueError('DER: negative ' + name)
        if len(v) > 1 and v[0] == 0 and not v[1] & 0x80:
            raise ValueError('DER: excessive padding in ' + name)
    return int.from_bytes(rb, 'big'), int.from_bytes(sb, 'big')


def parse_der_lax(sig: bytes):
    """Lenient parser equivalent to libsecp256k1's ecdsa_signature_parse_der_lax
    (what Bitcoin Core applies to pre-BIP66 signatures). Overflowing values -> (0, 0)."""
    n, pos = len(sig), 0

    def need(cond):
        if not cond:
            raise ValueError('lax DER: malformed')

    need(n > pos and sig[pos] == 0x30)
    pos += 1
    need(n > pos)
    lb = sig[pos]
    pos += 1
    if lb & 0x80:
        need(lb - 0x80 <= n - pos)
        pos += lb - 0x80  # sequence length is ignored
    vals = []
    for _ in range(2):
        need(n > pos and sig[pos] == 0x02)
        pos += 1
        need(n > pos)
        lb = sig[pos]
        pos += 1
        if lb & 0x80:
            lb -= 0x80
            need(lb <= n - pos)
            while lb > 0 and sig[pos] == 0:
                pos += 1
                lb -= 1
            need(lb < 8)
            ln = int.from_bytes(sig[pos:pos + lb], 'big')
            pos += lb
        else:
            ln = lb
        need(ln <= n - pos)
        vals.append(sig[pos:pos + ln].lstrip(b'\x00'))
        pos += ln
    if any(len(v) > 32 for v in vals):
        return 0, 0
    return int.from_bytes(vals[0], 'big'), int.from_bytes(vals[1], 'big')


def ser_der(r: int, s: int) -> bytes:
    def enc(v):
        b = v.to_bytes((v.bit_length() + 8) // 8 or 1, 'big')  # leaves a leading 0 when top bit set
        return b'\x02' + bytes([len(b)]) + b
    body = enc(r) + enc(s)
    return b'\x30' + bytes([len(body)]) + body
