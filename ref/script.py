"""Script parsing, standard template classification and constructors."""

OP_0, OP_PUSHDATA1, OP_PUSHDATA2, OP_PUSHDATA4, OP_1NEGATE, OP_1, OP_16 = 0x00, 0x4c, 0x4d, 0x4e, 0x4f, 0x51, 0x60
OP_RETURN, OP_DUP, OP_EQUAL, OP_EQUALVERIFY, OP_HASH160 = 0x6a, 0x76, 0x87, 0x88, 0xa9
OP_CODESEPARATOR, OP_CHECKSIG, OP_CHECKMULTISIG = 0xab, 0xac, 0xae


def iter_ops(b: bytes):
    """Yield (opcode, data_or_None, start, end) for each operation; ValueError if truncated."""
    i, n = 0, len(b)
    while i < n:
        start, op = i, b[i]
        i += 1
        if op > OP_PUSHDATA4:
            yield op, None, start, i
            continue
        if op < OP_PUSHDATA1:
            ln = op
        else:
            w = {OP_PUSHDATA1: 1, OP_PUSHDATA2: 2, OP_PUSHDATA4: 4}[op]
            if i + w > n:
                raise ValueError('truncated pushdata length')
            ln = int.from_bytes(b[i:i + w], 'little')
            i += w
        if i + ln > n:
            raise ValueError('truncated push')
        yield op, b[i:i + ln], start, i + ln
        i += ln


def parse_script(b: bytes) -> list:
    """-> list of items: bytes for every data push (OP_0 gives b''), int for any other opcode
    (so OP_1..OP_16 and OP_1NEGATE stay ints)."""
    return [data if data is not None else op for op, data, _, _ in iter_ops(bytes(b))]


def push(data: bytes) -> bytes:
    """Minimal push (BIP62 rule 3): b'' -> OP_0, single byte 1..16 -> OP_1..OP_16, 0x81 -> OP_1NEGATE."""
    n = len(data)
    if n == 0:
        return b'\x00'
    if n == 1 and 1 <= data[0] <= 16:
        return bytes([0x50 + data[0]])
    if n == 1 and data[0] == 0x81:
        return bytes([OP_1NEGATE])
    if n < OP_PUSHDATA1:
        return bytes([n]) + data
    if n <= 0xff:
        return bytes([OP_PUSHDATA1, n]) + data
    if n <= 0xffff:
        return bytes([OP_PUSHDATA2]) + n.to_bytes(2, 'little') + data
    return bytes([OP_PUSHDATA4]) + n.to_bytes(4, 'little') + data


def ser_script(items) -> bytes:
    return b''.join(bytes([it]) if isinstance(it, int) else push(bytes(it)) for it in items)


def _small_int(item):
    """Decode a multisig m/n item: OP_1..OP_16, or a minimal one-byte push of 17..20."""
    if isinstance(item, int):
        return item - 0x50 if OP_1 <= item <= OP_16 else None
    return item[0] if len(item) == 1 and 17 <= item[0] <= 20 else None


def _plausible_pubkey(k) -> bool:
    return isinstance(k, bytes) and ((len(k) == 33 and k[0] in (2, 3)) or (len(k) == 65 and k[0] in (4, 6, 7)))


def parse_multisig(script: bytes):
    """(m, [pubkeys]) for a canonical `m <k1>..<kn> n OP_CHECKMULTISIG`, else None.
    Keys must have a valid size/prefix (curve membership is NOT checked here)."""
    script = bytes(script)
    try:
        items = parse_script(script)
    except ValueError:
        return None
    if len(items) < 4 or items[-1] != OP_CHECKMULTISIG:
        return None
    m, n, keys = _small_int(items[0]), _small_int(items[-2]), items[1:-2]
    if m is None or n is None or not 1 <= m <= n <= 20 or n != len(keys):
        return None
    if not all(_plausible_pubkey(k) for k in keys):
        return None
    if ser_script(items) != script:  # non-minimal pushes
        return None
    return m, list(keys)


def is_push_only(script: bytes) -> bool:
    try:
        return all(op <= OP_16 for op, _, _, _ in iter_ops(bytes(script)))
    except ValueError:
        return False


def classify(spk: bytes) -> dict:
    spk = bytes(spk)
    n = len(spk)
    if n == 25 and spk[:3] == b'\x76\xa9\x14' and spk[23:] == b'\x88\xac':
        return {'type': 'p2pkh', 'hash': spk[3:23]}
    if n == 23 and spk[:2] == b'\xa9\x14' and spk[22] == OP_EQUAL:
        return {'type': 'p2sh', 'hash': spk[2:22]}
    if n == 22 and spk[:2] == b'\x00\x14':
        return {'type': 'p2wpkh', 'hash': spk[2:]}
    if n == 34 and spk[:2] == b'\x00\x20':
        return {'type': 'p2wsh', 'hash': spk[2:]}
    if n == 34 and spk[:2] == b'\x51\x20':
        return {'type': 'p2tr', 'hash': spk[2:]}
    if n in (35, 67) and spk[0] == n - 2 and spk[-1] == OP_CHECKSIG and _plausible_pubkey(spk[1:-1]):
        return {'type': 'p2pk', 'pubkey': spk[1:-1]}
    ms = parse_multisig(spk)
    if ms:
        return {'type': 'multisig', 'm': ms[0], 'n': len(ms[1]), 'pubkeys': ms[1]}
    if n >= 1 and spk[0] == OP_RETURN and is_push_only(spk[1:]):
        return {'type': 'nulldata', 'data': [d for _, d, _, _ in iter_ops(spk[1:]) if d is not None]}
    return {'type': 'unknown'}


def witness_program(spk: bytes):
    """(version, program) if spk is a BIP141 witness program, else None."""
    spk = bytes(spk)
    if 4 <= len(spk) <= 42 and (spk[0] == 0 or OP_1 <= spk[0] <= OP_16) and spk[1] == len(spk) - 2:
        return (spk[0] - 0x50 if spk[0] else 0), spk[2:]
    return None


def p2pkh_script(h160: bytes) -> bytes:
    assert len(h160) == 20
    return b'\x76\xa9\x14' + h160 + b'\x88\xac'


def p2sh_script(h160: bytes) -> bytes:
    assert len(h160) == 20
    return b'\xa9\x14' + h160 + b'\x87'


def p2wpkh_script(h160: bytes) -> bytes:
    assert len(h160) == 20
    return b'\x00\x14' + h160


def p2wsh_script(sha: bytes) -> bytes:
    assert len(sha) == 32
    return b'\x00\x20' + sha


def p2tr_script(xonly: bytes) -> bytes:
    assert len(xonly) == 32
    return b'\x51\x20' + xonly


def p2pk_script(pubkey: bytes) -> bytes:
    return push(pubkey) + bytes([OP_CHECKSIG])


def multisig_script(m: int, pubkeys) -> bytes:
    n = len(pubkeys)
    if not 1 <= m <= n <= 20:
        raise ValueError('bad multisig m/n')
    num = lambda v: bytes([0x50 + v]) if v <= 16 else bytes([1, v])
    return num(m) + b''.join(push(k) for k in pubkeys) + num(n) + bytes([OP_CHECKMULTISIG])
