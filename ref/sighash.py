"""Signature hash algorithms: original (legacy) and BIP143 (segwit v0)."""
import struct
from .hashes import sha256d
from .script import iter_ops, OP_CODESEPARATOR
from .txcodec import ser_varint, ser_string

SIGHASH_ALL, SIGHASH_NONE, SIGHASH_SINGLE, SIGHASH_ANYONECANPAY = 1, 2, 3, 0x80
ONE = b'\x01' + b'\x00' * 31  # uint256(1), the SIGHASH_SINGLE "bug" digest


def strip_codeseparators(script: bytes) -> bytes:
    """Remove OP_CODESEPARATOR opcodes (never bytes inside pushes). Like Core, an unparseable
    tail is copied verbatim."""
    out, pos = [], 0
    try:
        for op, data, start, end in iter_ops(script):
            if not (op == OP_CODESEPARATOR and data is None):
                out.append(script[start:end])
            pos = end
    except ValueError:
        out.append(script[pos:])
    return b''.join(out)


def legacy_sighash(tx, idx: int, script_code: bytes, hashtype: int) -> bytes:
    if not 0 <= idx < len(tx.vin):
        raise ValueError('input index out of range')
    base, acp = hashtype & 0x1f, bool(hashtype & SIGHASH_ANYONECANPAY)
    if base == SIGHASH_SINGLE and idx >= len(tx.vout):
        return ONE
    script_code = strip_codeseparators(bytes(script_code))
    buf = [struct.pack('<I', tx.version)]
    ins = [idx] if acp else range(len(tx.vin))
    buf.append(ser_varint(len(ins)))
    for i in ins:
        inp = tx.vin[i]
        seq = inp.sequence if i == idx or base not in (SIGHASH_NONE, SIGHASH_SINGLE) else 0
        buf.append(inp.outpoint() + ser_string(script_code if i == idx else b'') + struct.pack('<I', seq))
    if base == SIGHASH_NONE:
        buf.append(ser_varint(0))
    elif base == SIGHASH_SINGLE:
        buf.append(ser_varint(idx + 1))
        buf.extend([struct.pack('<q', -1) + b'\x00'] * idx)
        buf.append(tx.vout[idx].serialize())
    else:
        buf.append(ser_varint(len(tx.vout)))
        buf.extend(o.serialize() for o in tx.vout)
    buf.append(struct.pack('<I', tx.locktime))
    buf.append(struct.pack('<I', hashtype & 0xffffffff))
    return sha256d(b''.join(buf))


def bip143_sighash(tx, idx: int, script_code: bytes, amount: int, hashtype: int) -> bytes:
    if not 0 <= idx < len(tx.vin):
        raise ValueError('input index out of range')
    base, acp = hashtype & 0x1f, bool(hashtype & SIGHASH_ANYONECANPAY)
    zero = b'\x00' * 32
    hash_prevouts = zero if acp else sha256d(b''.join(i.outpoint() for i in tx.vin))
    if acp or base in (SIGHASH_NONE, SIGHASH_SINGLE):
        hash_sequence = zero
    else:
        hash_sequence = sha256d(b''.join(struct.pack('<I', i.sequence) for i in tx.vin))
    if base not in (SIGHASH_NONE, SIGHASH_SINGLE):
        hash_outputs = sha256d(b''.join(o.serialize() for o in tx.vout))
    elif base == SIGHASH_SINGLE and idx < len(tx.vout):
        hash_outputs = sha256d(tx.vout[idx].serialize())
    else:
        hash_outputs = zero
    inp = tx.vin[idx]
    pre = (struct.pack('<I', tx.version) + hash_prevouts + hash_sequence + inp.outpoint()
           + ser_string(bytes(script_code)) + struct.pack('<q', amount) + struct.pack('<I', inp.sequence)
           + hash_outputs + struct.pack('<I', tx.locktime) + struct.pack('<I', hashtype & 0xffffffff))
    return sha256d(pre)
