"""Independent BIP38 reference (decrypt both modes, encrypt the plain mode), standard library only.

AES-256 is implemented here (single-block ECB is all BIP38 needs); scrypt comes from hashlib (OpenSSL).
Validated by ref/selftest.py against the test vectors published in BIP-0038.
"""
import hashlib
import unicodedata

from . import codec, hashes, secp256k1 as ec

# -- AES-256, single block ---------------------------------------------------------------------------------------------
_SBOX = [0] * 256
_INV = [0] * 256


def _init_sbox():
    p = q = 1
    while True:
        # multiply p by 3
        p = p ^ ((p << 1) & 0xff) ^ (0x1b if p & 0x80 else 0)
        # divide q by 3
        q ^= q << 1
        q ^= q << 2
        q ^= q << 4
        q &= 0xff
        if q & 0x80:
            q ^= 0x09
        x = q ^ ((q << 1) | (q >> 7)) & 0xff ^ ((q << 2) | (q >> 6)) & 0xff ^ ((q << 3) | (q >> 5)) & 0xff ^ \
            ((q << 4) | (q >> 4)) & 0xff
        _SBOX[p] = (x ^ 0x63) & 0xff
        if p == 1:
            break
    _SBOX[0] = 0x63
    for i, v in enumerate(_SBOX):
        _INV[v] = i


_init_sbox()


def _xtime(a):
    return ((a << 1) ^ 0x1b) & 0xff if a & 0x80 else (a << 1)


def _mul(a, b):
    r = 0
    while b:
        if b & 1:
            r ^= a
        a = _xtime(a)
        b >>= 1
    return r


def _expand_key(key: bytes):
    assert len(key) == 32
    w = [list(key[i:i + 4]) for i in range(0, 32, 4)]
    rcon = 1
    for i in range(8, 60):
        t = list(w[i - 1])
        if i % 8 == 0:
            t = t[1:] + t[:1]
            t = [_SBOX[b] for b in t]
            t[0] ^= rcon
            rcon = _xtime(rcon)
        elif i % 8 == 4:
            t = [_SBOX[b] for b in t]
        w.append([a ^ b for a, b in zip(w[i - 8], t)])
    return [sum(w[4 * r:4 * r + 4], []) for r in range(15)]


def _add(s, k):
    return [a ^ b for a, b in zip(s, k)]


def _shift_rows(s, inv=False):
    out = [0] * 16
    for c in range(4):
        for r in range(4):
            src = (c + (-r if inv else r)) % 4
            out[4 * c + r] = s[4 * src + r]
    return out


def _mix(s, inv=False):
    m = (14, 11, 13, 9) if inv else (2, 3, 1, 1)
    out = []
    for c in range(4):
        col = s[4 * c:4 * c + 4]
        for r in range(4):
            out.append(_mul(col[0], m[(0 - r) % 4]) ^ _mul(col[1], m[(1 - r) % 4]) ^
                       _mul(col[2], m[(2 - r) % 4]) ^ _mul(col[3], m[(3 - r) % 4]))
    return out


def aes256_encrypt_block(key: bytes, block: bytes) -> bytes:
    assert len(block) == 16
    rk = _expand_key(key)
    s = _add(list(block), rk[0])
    for r in range(1, 14):
        s = _add(_mix(_shift_rows([_SBOX[b] for b in s])), rk[r])
    return bytes(_add(_shift_rows([_SBOX[b] for b in s]), rk[14]))


def aes256_decrypt_block(key: bytes, block: bytes) -> bytes:
    assert len(block) == 16
    rk = _expand_key(key)
    s = _add(list(block), rk[14])
    for r in range(13, 0, -1):
        s = _mix(_add([_INV[b] for b in _shift_rows(s, inv=True)], rk[r]), inv=True)
    return bytes(_add([_INV[b] for b in _shift_rows(s, inv=True)], rk[0]))


# -- BIP38 -------------------------------------------------------------------------------------------------------------
def _scrypt(pw: bytes, salt: bytes, n, r, p, dklen):
    return hashlib.scrypt(pw, salt=salt, n=n, r=r, p=p, dklen=dklen, maxmem=128 * 1024 * 1024)


def _xor(a, b):
    return bytes(x ^ y for x, y in zip(a, b))


def normalise(passphrase) -> bytes:
    if isinstance(passphrase, bytes):
        return passphrase
    return unicodedata.normalize('NFC', passphrase).encode('utf-8')


def p2pkh_address(pubkey: bytes, version: bytes = b'\x00') -> str:
    return codec.b58check_encode(version + hashes.hash160(pubkey))


def address_hash(address: str) -> bytes:
    return hashes.sha256d(address.encode('ascii'))[:4]


def encrypt(priv: bytes, compressed: bool, passphrase, address: str) -> str:
    """Plain (non EC-multiplied) mode."""
    assert len(priv) == 32
    ah = address_hash(address)
    d = _scrypt(normalise(passphrase), ah, 16384, 8, 8, 64)
    dh1, dh2 = d[:32], d[32:]
    e1 = aes256_encrypt_block(dh2, _xor(priv[:16], dh1[:16]))
    e2 = aes256_encrypt_block(dh2, _xor(priv[16:], dh1[16:]))
    flag = 0xe0 if compressed else 0xc0
    return codec.b58check_encode(b'\x01\x42' + bytes([flag]) + ah + e1 + e2)


class Bip38Error(ValueError):
    pass


def decrypt(enc: str, passphrase, address_of=None):
    """-> dict(priv=32 bytes, compressed, ec_multiplied, lot, sequence, address_hash, address_ok).
    `address_of(pubkey_bytes) -> str` gives the address whose hash the string commits to (default: bitcoin P2PKH).
    Raises Bip38Error for malformed strings; a wrong passphrase shows as address_ok False."""
    address_of = address_of or p2pkh_address
    try:
        raw = codec.b58check_decode(enc)
    except Exception as e:
        raise Bip38Error('base58check: %s' % e)
    if len(raw) != 39 or raw[0] != 0x01 or raw[1] not in (0x42, 0x43):
        raise Bip38Error('not a BIP38 string')
    flag = raw[2]
    ah = raw[3:7]
    pw = normalise(passphrase)
    if raw[1] == 0x42:
        if flag & 0xc0 != 0xc0:
            raise Bip38Error('flag byte')
        compressed = bool(flag & 0x20)
        d = _scrypt(pw, ah, 16384, 8, 8, 64)
        dh1, dh2 = d[:32], d[32:]
        priv = _xor(aes256_decrypt_block(dh2, raw[7:23]), dh1[:16]) + _xor(aes256_decrypt_block(dh2, raw[23:39]), dh1[16:])
        res = {'ec_multiplied': False, 'lot': None, 'sequence': None}
    else:
        compressed = bool(flag & 0x20)
        has_lot = bool(flag & 0x04)
        owner_entropy = raw[7:15]
        enc1a, enc2 = raw[15:23], raw[23:39]
        owner_salt = owner_entropy[:4] if has_lot else owner_entropy
        pre = _scrypt(pw, owner_salt, 16384, 8, 8, 32)
        passfactor = hashes.sha256d(pre + owner_entropy) if has_lot else pre
        pf = int.from_bytes(passfactor, 'big')
        if not 0 < pf < ec.N:
            raise Bip38Error('passfactor out of range')
        passpoint = ec.ser_pubkey(ec.point_mul(pf), True)
        d = _scrypt(passpoint, ah + owner_entropy, 1024, 1, 1, 64)
        dh1, dh2 = d[:32], d[32:]
        p2 = _xor(aes256_decrypt_block(dh2, enc2), dh1[16:])
        enc1 = enc1a + p2[:8]
        p1 = _xor(aes256_decrypt_block(dh2, enc1), dh1[:16])
        seedb = p1 + p2[8:]
        factorb = int.from_bytes(hashes.sha256d(seedb), 'big')
        if not 0 < factorb < ec.N:
            raise Bip38Error('factorb out of range')
        priv = ((pf * factorb) % ec.N).to_bytes(32, 'big')
        lot = seq = None
        if has_lot:
            ls = int.from_bytes(owner_entropy[4:], 'big')
            lot, seq = ls // 4096, ls % 4096
        res = {'ec_multiplied': True, 'lot': lot, 'sequence': seq}
    k = int.from_bytes(priv, 'big')
    ok = False
    if 0 < k < ec.N:
        pub = ec.pub_from_priv(k, compressed)
        ok = address_hash(address_of(pub)) == ah
    res.update(priv=priv, compressed=compressed, address_hash=ah, address_ok=ok)
    return res


# published vectors of BIP-0038: (encrypted, passphrase, WIF, compressed)
VECTORS = [
    ('6PRVWUbkzzsbcVac2qwfssoUJAN1Xhrg6bNk8J7Nzm5H7kxEbn2Nh2ZoGg', 'TestingOneTwoThree',
     '5KN7MzqK5wt2TP1fQCYyHBtDrXdJuXbUzm4A9rKAteGu3Qi5CVR', False),
    ('6PRNFFkZc2NZ6dJqFfhRoFNMR9Lnyj7dYGrzdgXXVMXcxoKTePPX1dWByq', 'Satoshi',
     '5HtasZ6ofTHP6HCwTqTkLDuLQisYPah7aUnSKfC7h4hMUVw2gi5', False),
    ('6PRW5o9FLp4gJDDVqJQKJFTpMvdsSGJxMYHtHaQBF3ooa8mwD69bapcDQn', 'ϓ\u0000\U00010400\U0001f4a9',
     '5Jajm8eQ22H3pGWLEVCXyvND8dQZhiQhoLJNKjYXk9roUFTMSZ4', False),
    ('6PYNKZ1EAgYgmQfmNVamxyXVWHzK5s6DGhwP4J5o44cvXdoY7sRzhtpUeo', 'TestingOneTwoThree',
     'L44B5gGEpqEDRS9vVPz7QT35jcBG2r3CZwSwQ4fCewXAhAhqGVpP', True),
    ('6PYLtMnXvfG3oJde97zRyLYFZCYizPU5T3LwgdYJz1fRhh16bU7u6PPmY7', 'Satoshi',
     'KwYgW8gcxj1JWJXhPSu4Fqwzfhp5Yfi42mdYmMa4XqK7NJxXUSK7', True),
    ('6PfQu77ygVyJLZjfvMLyhLMQbYnu5uguoJJ4kMCLqWwPEdfpwANVS76gTX', 'TestingOneTwoThree',
     '5K4caxezwjGCGfnoPTZ8tMcJBLB7Jvyjv4xxeacadhq8nLisLR2', False),
    ('6PfLGnQs6VZnrNpmVKfjotbnQuaJK4KZoPFrAjx1JMJUa1Ft8gnf5WxfKd', 'Satoshi',
     '5KJ51SgxWaAYR13zd9ReMhJpwrcX47xTJh2D3fGPG9CM8vkv5sH', False),
    ('6PgNBNNzDkKdhkT6uJntUXwwzQV8Rr2tZcbkDcuC9DZRsS6AtHts4Ypo1j', 'MOLON LABE',
     '5JLdxTtcTHcfYcmJsNVy1v2PMDx432JPoYcBTVVRHpPaxUrdtf8', False),
    ('6PgGWtx25kUg8QWvwuJAgorN6k9FbE25rv5dMRwu5SKMnfpfVe5mar2ngH', 'ΜΟΛΩΝ ΛΑΒΕ',
     '5KMKKuUmAkiNbA3DazMQiLfDq47qs8MAEThm4yL8R2PhV1ov33D', False),
]
LOT_SEQ = {'6PgNBNNzDkKdhkT6uJntUXwwzQV8Rr2tZcbkDcuC9DZRsS6AtHts4Ypo1j': (263183, 1),
           '6PgGWtx25kUg8QWvwuJAgorN6k9FbE25rv5dMRwu5SKMnfpfVe5mar2ngH': (806938, 1)}


def selftest():
    # FIPS-197 appendix C.3
    key = bytes(range(32))
    pt = bytes.fromhex('00112233445566778899aabbccddeeff')
    ct = bytes.fromhex('8ea2b7ca516745bfeafc49904b496089')
    assert aes256_encrypt_block(key, pt) == ct, 'AES-256 encrypt vector'
    assert aes256_decrypt_block(key, ct) == pt, 'AES-256 decrypt vector'
    n = 0
    for enc, pw, wif, compressed in VECTORS:
        raw = codec.b58check_decode(wif)
        priv = raw[1:33]
        assert (len(raw) == 34) == compressed
        r = decrypt(enc, pw)
        assert r['priv'] == priv and r['compressed'] == compressed and r['address_ok'], 'BIP38 vector %s' % enc
        if enc in LOT_SEQ:
            assert (r['lot'], r['sequence']) == LOT_SEQ[enc], 'lot/sequence of %s' % enc
        if not r['ec_multiplied']:
            pub = ec.pub_from_priv(int.from_bytes(priv, 'big'), compressed)
            assert encrypt(priv, compressed, pw, p2pkh_address(pub)) == enc, 'BIP38 encrypt vector %s' % enc
        assert not decrypt(enc, pw + 'x')['address_ok'], 'wrong passphrase accepted for %s' % enc
        n += 1
    return n
