"""BIP32 hierarchical deterministic keys."""
from dataclasses import dataclass
from .hashes import hmac_sha512, hash160
from .secp256k1 import N, G, point_add, point_mul, parse_pubkey, ser_pubkey, pub_from_priv
from .codec import b58check_encode, b58check_decode, xkey_version_info

HARDENED = 2**31


@dataclass
class RefHDNode:
    depth: int
    fingerprint: bytes   # parent fingerprint (4 bytes)
    child_number: int
    chain_code: bytes
    priv: int | None
    pub: bytes           # 33-byte compressed key

    @classmethod
    def from_seed(cls, seed: bytes):
        I = hmac_sha512(b'Bitcoin seed', bytes(seed))
        k = int.from_bytes(I[:32], 'big')
        if not 1 <= k < N:
            raise ValueError('seed yields an invalid master key')
        return cls(0, b'\x00' * 4, 0, I[32:], k, pub_from_priv(k))

    def identifier(self) -> bytes:
        return hash160(self.pub)

    def neuter(self):
        return RefHDNode(self.depth, self.fingerprint, self.child_number, self.chain_code, None, self.pub)

    def ckd(self, i: int):
        if not 0 <= i < 2**32:
            raise ValueError('child index out of range')
        if self.depth >= 255:
            raise ValueError('maximum depth reached')
        if i >= HARDENED:
            if self.priv is None:
                raise ValueError('cannot derive a hardened child from a public key')
            data = b'\x00' + self.priv.to_bytes(32, 'big')
        else:
            data = self.pub
        I = hmac_sha512(self.chain_code, data + i.to_bytes(4, 'big'))
        il = int.from_bytes(I[:32], 'big')
        if il >= N:
            raise ValueError('invalid child (IL >= n): use next index')
        if self.priv is not None:
            k = (il + self.priv) % N
            if k == 0:
                raise ValueError('invalid child (key is zero): use next index')
            pub = pub_from_priv(k)
        else:
            k = None
            pt = point_add(point_mul(il, G), parse_pubkey(self.pub))
            if pt is None:
                raise ValueError('invalid child (point at infinity): use next index')
            pub = ser_pubkey(pt, True)
        return RefHDNode(self.depth + 1, self.identifier()[:4], i, I[32:], k, pub)

    def derive(self, path: str):
        """'m/44'/0'/0'/0/1' (private result), 'M/0/1' (public result) or relative '0/1'.
        Hardened markers: ' h H."""
        parts = path.strip().split('/')
        public = False
        if parts[0] in ('m', 'M'):
            public = parts[0] == 'M'
            if not public and self.priv is None:
                raise ValueError("path starts with 'm' but node has no private key")
            parts = parts[1:]
        node = self
        for p in parts:
            hard = p[-1:] in ("'", 'h', 'H')
            num = p[:-1] if hard else p
            if not (num.isascii() and num.isdigit()):
                raise ValueError('invalid path component %r' % p)
            idx = int(num)
            if idx >= HARDENED:
                raise ValueError('path index out of range')
            node = node.ckd(idx + HARDENED if hard else idx)
        return node.neuter() if public else node

    def _ser(self, version: bytes, keydata: bytes) -> str:
        if len(version) != 4:
            raise ValueError('version must be 4 bytes')
        return b58check_encode(version + bytes([self.depth]) + self.fingerprint
                               + self.child_number.to_bytes(4, 'big') + self.chain_code + keydata)

    def ser_private(self, version: bytes) -> str:
        if self.priv is None:
            raise ValueError('no private key')
        return self._ser(version, b'\x00' + self.priv.to_bytes(32, 'big'))

    def ser_public(self, version: bytes) -> str:
        return self._ser(version, self.pub)


def parse_xkey(s: str):
    """-> (version_bytes, RefHDNode). Validates per BIP32 (test vector 5 rules)."""
    raw = b58check_decode(s)
    if len(raw) != 78:
        raise ValueError('extended key must be 78 bytes')
    version, depth, fpr, child = raw[:4], raw[4], raw[5:9], int.from_bytes(raw[9:13], 'big')
    chain, keydata = raw[13:45], raw[45:]
    if depth == 0 and (fpr != b'\x00' * 4 or child != 0):
        raise ValueError('master key with non-zero parent fingerprint or index')
    if keydata[0] == 0:
        priv = int.from_bytes(keydata[1:], 'big')
        if not 1 <= priv < N:
            raise ValueError('private key out of range')
        pub = pub_from_priv(priv)
    elif keydata[0] in (2, 3):
        priv, pub = None, keydata
        parse_pubkey(pub)  # raises ValueError if not on the curve
    else:
        raise ValueError('invalid key data prefix')
    info = xkey_version_info(version)
    if info and all(is_priv != (priv is not None) for _, _, is_priv in info):
        raise ValueError('version bytes do not match key type')
    return version, RefHDNode(depth, fpr, child, chain, priv, pub)
