"""Base58(Check), Bech32/Bech32m, WIF, network constants and address <-> script conversion."""
from .hashes import sha256, sha256d, hash160
from .secp256k1 import N
from . import script as _sc

# ---------------------------------------------------------------- base58
B58 = '123456789ABCDEFGHJKLMNPQRSTUVWXYZabcdefghijkmnopqrstuvwxyz'
_B58_IDX = {c: i for i, c in enumerate(B58)}


def b58encode(b: bytes) -> str:
    b = bytes(b)
    n, out = int.from_bytes(b, 'big'), ''
    while n:
        n, r = divmod(n, 58)
        out = B58[r] + out
    return '1' * (len(b) - len(b.lstrip(b'\x00'))) + out


def b58decode(s: str) -> bytes:
    n = 0
    for c in s:
        if c not in _B58_IDX:
            raise ValueError('invalid base58 character %r' % c)
        n = n * 58 + _B58_IDX[c]
    zeros = len(s) - len(s.lstrip('1'))
    return b'\x00' * zeros + n.to_bytes((n.bit_length() + 7) // 8, 'big')


def b58check_encode(payload: bytes) -> str:
    return b58encode(bytes(payload) + sha256d(bytes(payload))[:4])


def b58check_decode(s: str) -> bytes:
    raw = b58decode(s)
    if len(raw) < 4 or sha256d(raw[:-4])[:4] != raw[-4:]:
        raise ValueError('bad base58check checksum')
    return raw[:-4]


# ---------------------------------------------------------------- bech32 / bech32m (BIP173 / BIP350)
B32 = 'qpzry9x8gf2tvdw0s3jn54khce6mua7l'
_B32_CONST = {'bech32': 1, 'bech32m': 0x2bc830a3}


def _polymod(values):
    gen = (0x3b6a57b2, 0x26508e6d, 0x1ea119fa, 0x3d4233dd, 0x2a1462b3)
    chk = 1
    for v in values:
        top = chk >> 25
        chk = (chk & 0x1ffffff) << 5 ^ v
        for i in range(5):
            if (top >> i) & 1:
                chk ^= gen[i]
    return chk


def _hrp_expand(hrp):
    return [ord(c) >> 5 for c in hrp] + [0] + [ord(c) & 31 for c in hrp]


def _convertbits(data, frm, to, pad):
    acc = bits = 0
    out, maxv = [], (1 << to) - 1
    for v in data:
        acc = (acc << frm) | v
        bits += frm
        while bits >= to:
            bits -= to
            out.append((acc >> bits) & maxv)
    if pad:
        if bits:
            out.append((acc << (to - bits)) & maxv)
    elif bits >= frm or (acc << (to - bits)) & maxv:
        raise ValueError('invalid padding')
    return out


def bech32_encode(hrp: str, witver: int, witprog: bytes) -> str:
    if not 0 <= witver <= 16 or not 2 <= len(witprog) <= 40 or (witver == 0 and len(witprog) not in (20, 32)):
        raise ValueError('invalid witness version/program')
    hrp = hrp.lower()
    data = [witver] + _convertbits(witprog, 8, 5, True)
    const = _B32_CONST['bech32' if witver == 0 else 'bech32m']
    pm = _polymod(_hrp_expand(hrp) + data + [0] * 6) ^ const
    data += [(pm >> 5 * (5 - i)) & 31 for i in range(6)]
    return hrp + '1' + ''.join(B32[d] for d in data)


def bech32_decode(s: str):
    """Segwit address -> (hrp, witver, witprog, spec) with spec in {'bech32', 'bech32m'}."""
    if any(ord(c) < 33 or ord(c) > 126 for c in s) or (s.lower() != s and s.upper() != s):
        raise ValueError('invalid characters or mixed case')
    s = s.lower()
    pos = s.rfind('1')
    if pos < 1 or pos + 7 > len(s) or len(s) > 90:
        raise ValueError('bad separator position or length')
    hrp, tail = s[:pos], s[pos + 1:]
    if any(c not in B32 for c in tail):
        raise ValueError('invalid data character')
    data = [B32.index(c) for c in tail]
    pm = _polymod(_hrp_expand(hrp) + data)
    spec = {v: k for k, v in _B32_CONST.items()}.get(pm)
    if spec is None:
        raise ValueError('bad bech32 checksum')
    data = data[:-6]
    if not data:
        raise ValueError('empty data section')
    witver, prog = data[0], bytes(_convertbits(data[1:], 5, 8, False))
    if witver > 16 or not 2 <= len(prog) <= 40 or (witver == 0 and len(prog) not in (20, 32)):
        raise ValueError('invalid witness version/program length')
    if spec != ('bech32' if witver == 0 else 'bech32m'):
        raise ValueError('wrong checksum variant for witness version')
    return hrp, witver, prog, spec


# ---------------------------------------------------------------- WIF
def wif_encode(priv: int, compressed: bool, prefix: bytes) -> str:
    if not 1 <= priv < N:
        raise ValueError('private key out of range')
    return b58check_encode(prefix + priv.to_bytes(32, 'big') + (b'\x01' if compressed else b''))


def wif_decode(s: str):
    raw = b58check_decode(s)
    if len(raw) == 34 and raw[-1] == 1:
        compressed, raw = True, raw[:-1]
    elif len(raw) == 33:
        compressed = False
    else:
        raise ValueError('bad WIF payload length')
    priv = int.from_bytes(raw[1:], 'big')
    if not 1 <= priv < N:
        raise ValueError('WIF private key out of range')
    return raw[:1], priv, compressed


# ---------------------------------------------------------------- networks
def _x(pub, prv):
    return bytes.fromhex(pub), bytes.fromhex(prv)


def _net(p2pkh, p2sh, hrp, wif, coin, legacy, p2sh_p2wpkh=None, p2sh_p2wsh=None, p2wpkh=None, p2wsh=None):
    xk = {'legacy': legacy, 'p2sh_p2wpkh': p2sh_p2wpkh, 'p2sh_p2wsh': p2sh_p2wsh, 'p2wpkh': p2wpkh, 'p2wsh': p2wsh}
    return {'p2pkh': bytes([p2pkh]), 'p2sh': bytes([p2sh]), 'bech32': hrp, 'wif': bytes([wif]), 'coin_type': coin,
            'xkeys': {k: v for k, v in xk.items() if v}}  # xkeys[family] = (public_version, private_version)


# Sources: Bitcoin Core chainparams, BIP32/44/49/84/173, SLIP-44 (coin types), SLIP-132 (extended key versions),
# Litecoin / Dogecoin Core chainparams. Cross-checked against bitcoinlib's networks.json by ref.selftest.
NETWORKS = {
    'bitcoin': _net(0x00, 0x05, 'bc', 0x80, 0,
                    _x('0488B21E', '0488ADE4'),                       # xpub / xprv
                    _x('049D7CB2', '049D7878'), _x('0295B43F', '0295B005'),   # ypub/yprv, Ypub/Yprv
                    _x('04B24746', '04B2430C'), _x('02AA7ED3', '02AA7A99')),  # zpub/zprv, Zpub/Zprv
    'testnet': _net(0x6F, 0xC4, 'tb', 0xEF, 1,
                    _x('043587CF', '04358394'),                       # tpub / tprv
                    _x('044A5262', '044A4E28'), _x('024289EF', '024285B5'),   # upub/uprv, Upub/Uprv
                    _x('045F1CF6', '045F18BC'), _x('02575483', '02575048')),  # vpub/vprv, Vpub/Vprv
    'litecoin': _net(0x30, 0x32, 'ltc', 0xB0, 2,
                     _x('019DA462', '019D9CFE'),                      # Ltub / Ltpv
                     _x('01B26EF6', '01B26792'), _x('01B26EF6', '01B26792'),  # Mtub / Mtpv (SLIP-132 has only these)
                     _x('01B26EF6', '01B26792'), _x('01B26EF6', '01B26792')),
    'litecoin_testnet': _net(0x6F, 0x3A, 'tltc', 0xEF, 1,
                             _x('0436F6E1', '0436EF7D'),              # ttub / ttpv for every family
                             _x('0436F6E1', '0436EF7D'), _x('0436F6E1', '0436EF7D'),
                             _x('0436F6E1', '0436EF7D'), _x('0436F6E1', '0436EF7D')),
    # Dogecoin Core: no segwit / bech32; BIP32 versions are dgub 02FACAFD / dgpv 02FAC398.
    # bitcoinlib instead uses hrp 'doge' and Bitcoin's xpub/xprv bytes -> listed in KNOWN_DIFFS below.
    'dogecoin': _net(0x1E, 0x16, None, 0x9E, 3, _x('02FACAFD', '02FAC398')),
    # bitcoinlib's private test network: values COPIED from /repo/bitcoinlib/data/networks.json (no other source).
    'bitcoinlib_test': _net(0x90, 0x95, 'blt', 0x99, 9999999,
                            _x('2FFFACCC', '2FFFADDD'),
                            _x('2FFFAEEE', '2FFFB300'), _x('2FFFB100', '2FFFB500'),
                            _x('2FFFB666', '2FFFB900'), _x('2FFFB800', '2FFFBA00')),
}

# Where this reference knowingly differs from bitcoinlib's networks.json: (network, field) -> bitcoinlib value.
KNOWN_DIFFS = {
    ('dogecoin', 'bech32'): 'doge',
    ('dogecoin', 'xkeys.legacy'): _x('0488B21E', '0488ADE4'),
}


def xkey_version_info(version: bytes):
    """-> list of (network, family, is_private) using these extended-key version bytes."""
    return [(net, fam, bool(i)) for net, d in NETWORKS.items() for fam, pair in d['xkeys'].items()
            for i in (0, 1) if pair[i] == version]


def _net_params(network):
    if network not in NETWORKS:
        raise ValueError('unknown network %r' % network)
    return NETWORKS[network]


# ---------------------------------------------------------------- addresses
def address_to_script(addr: str, network: str) -> bytes:
    p = _net_params(network)
    try:
        payload = b58check_decode(addr)
    except ValueError:
        payload = None
    if payload is not None:
        if len(payload) != 21:
            raise ValueError('bad base58 address payload length')
        if payload[:1] == p['p2pkh']:
            return _sc.p2pkh_script(payload[1:])
        if payload[:1] == p['p2sh']:
            return _sc.p2sh_script(payload[1:])
        raise ValueError('address version does not belong to network ' + network)
    hrp, witver, prog, _ = bech32_decode(addr)
    if p['bech32'] is None or hrp != p['bech32']:
        raise ValueError('bech32 prefix does not belong to network ' + network)
    return bytes([0x50 + witver if witver else 0, len(prog)]) + prog


def script_to_address(script_pubkey: bytes, network: str):
    p = _net_params(network)
    c = _sc.classify(script_pubkey)
    if c['type'] == 'p2pkh':
        return b58check_encode(p['p2pkh'] + c['hash'])
    if c['type'] == 'p2sh':
        return b58check_encode(p['p2sh'] + c['hash'])
    wp = _sc.witness_program(script_pubkey)
    if wp and p['bech32']:
        try:
            return bech32_encode(p['bech32'], wp[0], wp[1])
        except ValueError:
            return None
    return None


def _compressed_only(pubkey):
    if not (len(pubkey) == 33 and pubkey[0] in (2, 3)):
        raise ValueError('segwit addresses require a compressed public key')


def p2pkh_address(pubkey: bytes, network: str) -> str:
    return script_to_address(_sc.p2pkh_script(hash160(pubkey)), network)


def p2wpkh_address(pubkey: bytes, network: str) -> str:
    _compressed_only(pubkey)
    return script_to_address(_sc.p2wpkh_script(hash160(pubkey)), network)


def p2sh_p2wpkh_address(pubkey: bytes, network: str) -> str:
    _compressed_only(pubkey)
    return p2sh_address(_sc.p2wpkh_script(hash160(pubkey)), network)


def p2sh_address(redeem_script: bytes, network: str) -> str:
    return script_to_address(_sc.p2sh_script(hash160(redeem_script)), network)


def p2wsh_address(witness_script: bytes, network: str) -> str:
    return script_to_address(_sc.p2wsh_script(sha256(witness_script)), network)


def p2sh_p2wsh_address(witness_script: bytes, network: str) -> str:
    return p2sh_address(_sc.p2wsh_script(sha256(witness_script)), network)
